// real build: the actual wrapper TU (g++), external calls are the C symbols defined here
#include "wrap.cpp"
#include <cstdlib>
#include <new>
#define DRV_INIT() ((void) 0)
#define CALL_options_from(f, k, o) vp_options_from((f), (k), (o))
#define CALL_clone(f, c) vp_clone((f), (c))
#define CALL_error_code(r, e) vp_error_code((r), (e))
#define CALL_m_start(f, a, e) vp_m_start((f), (a), (e))
#define CALL_m_fork(f, e) vp_m_fork((f), (e))
#define CALL_m_read(s, b, n, e) vp_m_read((s), (b), (n), (e))
#define CALL_m_write(b, n, e) vp_m_write((b), (n), (e))
#define CALL_m_close(s, e) vp_m_close((s), (e))
#define CALL_m_wait(t, e) vp_m_wait((t), (e))
#define CALL_m_terminate(e) vp_m_terminate((e))
#define CALL_m_kill(e) vp_m_kill((e))
#define CALL_m_stop(a, t, e) vp_m_stop((a), (t), (e))
#define CALL_m_pid(e) vp_m_pid((e))
#define CALL_m_poll(i, ev, t, e) vp_m_poll((i), (ev), (t), (e))
#define CALL_m_poll1(i, t, e) vp_m_poll1((i), (t), (e))
#define CALL_enums(o) vp_enums((o))
#define CALL_args_from(v) vp_args_from((const verif::vec *) (v))
#define CALL_env_from(v) vp_env_from((const verif::pvec *) (v))
#include "driver_body.h"
extern "C" {
const int REPROC_SIGKILL = 137, REPROC_SIGTERM = 143, REPROC_INFINITE = -1, REPROC_DEADLINE = -2, REPROC_EPIPE = -EPIPE;
reproc_t *reproc_new(void) { S_new(); return (reproc_t *) &handle_o[n_new_o++ & 1]; }
reproc_t *reproc_destroy(reproc_t *p) { S_destroy(p); return NULL; }
int reproc_start(reproc_t *p, const char *const *a, reproc_options o) { printf(" start(%d,%d)", pid_(p), a == argv_o ? 1 : a ? 9 : 0); print_options(&o); return stub_ret_o; }
int reproc_read(reproc_t *p, REPROC_STREAM s, uint8_t *b, size_t n) { printf(" read(%d,%d,%d,%llu)", pid_(p), (int) s, b == buf_o, (unsigned long long) n); return stub_ret_o; }
int reproc_write(reproc_t *p, const uint8_t *b, size_t n) { printf(" write(%d,%d,%llu)", pid_(p), b == buf_o, (unsigned long long) n); return stub_ret_o; }
int reproc_close(reproc_t *p, REPROC_STREAM s) { printf(" close(%d,%d)", pid_(p), (int) s); return stub_ret_o; }
int reproc_wait(reproc_t *p, int t) { printf(" wait(%d,%d)", pid_(p), t); return stub_ret_o; }
int reproc_terminate(reproc_t *p) { printf(" terminate(%d)", pid_(p)); return stub_ret_o; }
int reproc_kill(reproc_t *p) { printf(" kill(%d)", pid_(p)); return stub_ret_o; }
int reproc_stop(reproc_t *p, reproc_stop_actions a) { printf(" stop(%d,%d %d %d %d %d %d)", pid_(p), (int) a.first.action, a.first.timeout, (int) a.second.action, a.second.timeout, (int) a.third.action, a.third.timeout); return stub_ret_o; }
int reproc_pid(reproc_t *p) { printf(" pid(%d)", pid_(p)); return stub_ret_o; }
int reproc_poll(reproc_event_source *q, size_t n, int t) { printf(" poll(%llu,%d", (unsigned long long) n, t); for (size_t i = 0; i < n && i < 2; i++) { printf(" [%d %d %d]", pid_(q[i].process), q[i].interests, q[i].events); q[i].events = pev[i]; } printf(")"); return stub_ret_o; }
void vp_inspect_strv(const char *const *v) { for (int i = 0; v[i]; i++) { printf(" \""); for (const char *c = v[i]; *c; c++) printf("%02x", (unsigned char) *c); printf("\""); } }
}
void *operator new[](std::size_t n) { printf(" new[%llu]", (unsigned long long) n); return malloc(n); }
void operator delete[](void *p) noexcept { printf(" delete[]"); free(p); }
void operator delete[](void *p, std::size_t) noexcept { printf(" delete[]"); free(p); }
