/* gen build: the generated C + X_* stubs */
#include <reproc/reproc.h>
#include <stdbool.h>
#include <stdlib.h>
#include "wrap_gen.c"
struct flat_redirect { int type; int handle; FILE *file; const char *path; };
struct flat_options { int env_behavior; const char *const *env_extra; const char *working_directory;
  struct flat_redirect in, out, err; bool parent, discard; FILE *file; const char *path;
  int stop_action[3]; int stop_timeout[3]; int timeout; int deadline; const uint8_t *input_data; size_t input_size; bool nonblocking; };
struct flat_ec { int value; int is_system; int is_generic; };
#define DRV_INIT() F__GLOBAL__sub_I_wrap_cpp()
#define CALL_options_from(f, k, o) F_vp_options_from((char *) (f), (k), (char *) (o))
#define CALL_clone(f, c) F_vp_clone((char *) (f), (char *) (c))
#define CALL_error_code(r, e) F_vp_error_code((uint32_t) (r), (char *) (e))
#define CALL_m_start(f, a, e) F_vp_m_start((char *) (f), (char *) (a), (char *) (e))
#define CALL_m_fork(f, e) F_vp_m_fork((char *) (f), (char *) (e))
#define CALL_m_read(s, b, n, e) F_vp_m_read((uint32_t) (s), (char *) (b), (n), (char *) (e))
#define CALL_m_write(b, n, e) F_vp_m_write((char *) (b), (n), (char *) (e))
#define CALL_m_close(s, e) F_vp_m_close((uint32_t) (s), (char *) (e))
#define CALL_m_wait(t, e) F_vp_m_wait((uint32_t) (t), (char *) (e))
#define CALL_m_terminate(e) F_vp_m_terminate((char *) (e))
#define CALL_m_kill(e) F_vp_m_kill((char *) (e))
#define CALL_m_stop(a, t, e) F_vp_m_stop((char *) (a), (char *) (t), (char *) (e))
#define CALL_m_pid(e) F_vp_m_pid((char *) (e))
#define CALL_m_poll(i, ev, t, e) F_vp_m_poll((char *) (i), (char *) (ev), (uint32_t) (t), (char *) (e))
#define CALL_m_poll1(i, t, e) F_vp_m_poll1((uint32_t) (i), (uint32_t) (t), (char *) (e))
#define CALL_enums(o) F_vp_enums((char *) (o))
#define CALL_args_from(v) F_vp_args_from((char *) (v))
#define CALL_env_from(v) F_vp_env_from((char *) (v))
#include "driver_body.h"
uint32_t XG_REPROC_SIGKILL = 137, XG_REPROC_SIGTERM = 143, XG_REPROC_INFINITE = (uint32_t) -1,
         XG_REPROC_DEADLINE = (uint32_t) -2, XG_REPROC_EPIPE = (uint32_t) -EPIPE;
void ll_unreachable(void) { abort(); }
char *X__ZNSt3_V215system_categoryEv(void) { return &cat_system_o; }
char *X__ZNSt3_V216generic_categoryEv(void) { return &cat_generic_o; }
char *X_reproc_new(void) { S_new(); return &handle_o[n_new_o++ & 1]; }
char *X_reproc_destroy(char *p) { S_destroy(p); return NULL; }
uint32_t X_reproc_start(char *p, char *a, char *o) { printf(" start(%d,%d)", pid_(p), a == (char *) argv_o ? 1 : a ? 9 : 0); print_options((reproc_options *) o); return (uint32_t) stub_ret_o; }
uint32_t X_reproc_read(char *p, uint32_t s, char *b, uint64_t n) { printf(" read(%d,%d,%d,%llu)", pid_(p), (int) s, b == (char *) buf_o, (unsigned long long) n); return (uint32_t) stub_ret_o; }
uint32_t X_reproc_write(char *p, char *b, uint64_t n) { printf(" write(%d,%d,%llu)", pid_(p), b == (char *) buf_o, (unsigned long long) n); return (uint32_t) stub_ret_o; }
uint32_t X_reproc_close(char *p, uint32_t s) { printf(" close(%d,%d)", pid_(p), (int) s); return (uint32_t) stub_ret_o; }
uint32_t X_reproc_wait(char *p, uint32_t t) { printf(" wait(%d,%d)", pid_(p), (int) t); return (uint32_t) stub_ret_o; }
uint32_t X_reproc_terminate(char *p) { printf(" terminate(%d)", pid_(p)); return (uint32_t) stub_ret_o; }
uint32_t X_reproc_kill(char *p) { printf(" kill(%d)", pid_(p)); return (uint32_t) stub_ret_o; }
uint32_t X_reproc_stop(char *p, char *s) { reproc_stop_actions *a = (reproc_stop_actions *) s; printf(" stop(%d,%d %d %d %d %d %d)", pid_(p), (int) a->first.action, a->first.timeout, (int) a->second.action, a->second.timeout, (int) a->third.action, a->third.timeout); return (uint32_t) stub_ret_o; }
uint32_t X_reproc_pid(char *p) { printf(" pid(%d)", pid_(p)); return (uint32_t) stub_ret_o; }
uint32_t X_reproc_poll(char *s, uint64_t n, uint32_t t) { reproc_event_source *q = (reproc_event_source *) s; printf(" poll(%llu,%d", (unsigned long long) n, (int) t); for (uint64_t i = 0; i < n && i < 2; i++) { printf(" [%d %d %d]", pid_(q[i].process), q[i].interests, q[i].events); q[i].events = pev[i]; } printf(")"); return (uint32_t) stub_ret_o; }
char *X__Znam(uint64_t n) { printf(" new[%llu]", (unsigned long long) n); return (char *) malloc(n); }
void X__ZdaPv(char *p) { printf(" delete[]"); free(p); }
void X_vp_inspect_strv(char *vv) { const char *const *v = (const char *const *) vv; for (int i = 0; v[i]; i++) { printf(" \""); for (const char *c = v[i]; *c; c++) printf("%02x", (unsigned char) *c); printf("\""); } }
