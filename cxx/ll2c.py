#!/usr/bin/env python3
"""ll2c.py - translate the LLVM-14 IR (typed pointers) that clang++ -O1 emits for the
reproc++ wrapper TU into plain C that CBMC's C front end accepts.

Memory model of the generated C: every pointer is `char *`; getelementptr becomes byte
arithmetic with offsets computed from the module's struct layouts (x86-64 SysV rules, the
module's datalayout is checked to be the expected one); loads and stores go through typed
pointer casts. SSA values become C locals; phi nodes become copies on the incoming edges.

Supported: alloca load store getelementptr bitcast zext sext trunc ptrtoint inttoptr add sub
mul and or xor shl lshr ashr icmp select br switch phi call ret insertvalue extractvalue
unreachable, llvm.memcpy/memset/lifetime/invariant/assume, llvm.umul.with.overflow.i64.
Anything else raises Unsupported: the run is then reported as inconclusive, never as success.

External functions keep their (sanitised) names with the prefix X_ and all-pointer/integer
signatures; the harness defines them (stubs that record their arguments).
"""
import re
import sys

EXPECTED_DL = "e-m:e-p270:32:32-p271:32:32-p272:64:64-i64:64-f80:128-n8:16:32:64-S128"


class Unsupported(Exception):
    pass


def san(name):
    return re.sub(r"[^A-Za-z0-9_]", "_", name)


# ------------------------------------------------------------------ types

class T:
    def __init__(self, kind, **kw):
        self.kind = kind
        self.__dict__.update(kw)


class Types:
    def __init__(self):
        self.named = {}
        self.aggs = {}  # canonical literal struct -> C name

    def parse(self, s):
        s = s.strip()
        t, rest = self._parse(s)
        if rest.strip():
            raise Unsupported("trailing type text: %r in %r" % (rest, s))
        return t

    def _parse(self, s):
        s = s.lstrip()
        m = re.match(r"i(\d+)", s)
        if m:
            t, s = T("int", bits=int(m.group(1))), s[m.end():]
        elif s.startswith("void"):
            t, s = T("void"), s[4:]
        elif s.startswith("double"):
            t, s = T("fp", bits=64), s[6:]
        elif s.startswith("float"):
            t, s = T("fp", bits=32), s[5:]
        elif s.startswith("opaque"):
            t, s = T("opaque"), s[6:]
        elif s.startswith("..."):
            t, s = T("vararg"), s[3:]
        elif s.startswith("%"):
            m = re.match(r'%("[^"]*"|[\w.$-]+)', s)
            t, s = T("named", name=m.group(1)), s[m.end():]
        elif s.startswith("["):
            m = re.match(r"\[\s*(\d+)\s*x\s*", s)
            et, rest = self._parse(s[m.end():])
            rest = rest.lstrip()
            assert rest.startswith("]"), s
            t, s = T("array", n=int(m.group(1)), elem=et), rest[1:]
        elif s.startswith("<{") or s.startswith("{"):
            packed = s.startswith("<{")
            s = s[2:] if packed else s[1:]
            fields = []
            s = s.lstrip()
            while not s.startswith("}"):
                ft, s = self._parse(s)
                fields.append(ft)
                s = s.lstrip()
                if s.startswith(","):
                    s = s[1:].lstrip()
            s = s[1:]
            if packed:
                s = s.lstrip()
                assert s.startswith(">"), s
                s = s[1:]
            t = T("struct", fields=fields, packed=packed)
        else:
            raise Unsupported("type: %r" % s[:40])
        # suffixes: pointers and function types
        while True:
            s2 = s.lstrip()
            if s2.startswith("*"):
                t, s = T("ptr", to=t), s2[1:]
            elif s2.startswith("("):
                depth, i = 0, 0
                for i, ch in enumerate(s2):
                    depth += ch == "("
                    depth -= ch == ")"
                    if depth == 0:
                        break
                t, s = T("func", ret=t, args=s2[1:i]), s2[i + 1:]
            else:
                break
        return t, s

    def resolve(self, t):
        while t.kind == "named":
            if t.name not in self.named:
                raise Unsupported("unknown named type " + t.name)
            t = self.named[t.name]
        return t

    def size_align(self, t):
        t = self.resolve(t)
        if t.kind == "int":
            b = max(1, (t.bits + 7) // 8)
            b = 1 if b == 1 else 2 if b == 2 else 4 if b <= 4 else 8
            return b, b
        if t.kind == "fp":
            return t.bits // 8, t.bits // 8
        if t.kind in ("ptr", "func"):
            return 8, 8
        if t.kind == "array":
            s, a = self.size_align(t.elem)
            return s * t.n, a
        if t.kind == "struct":
            off, al = 0, 1
            for f in t.fields:
                s, a = self.size_align(f)
                if t.packed:
                    a = 1
                off = (off + a - 1) // a * a
                off += s
                al = max(al, a)
            return (off + al - 1) // al * al, al
        if t.kind == "opaque":
            raise Unsupported("size of opaque type")
        raise Unsupported("size of " + t.kind)

    def field_offset(self, t, idx):
        t = self.resolve(t)
        off = 0
        for i, f in enumerate(t.fields):
            s, a = self.size_align(f)
            if t.packed:
                a = 1
            off = (off + a - 1) // a * a
            if i == idx:
                return off, f
            off += s
        raise Unsupported("field index out of range")

    def ctype(self, t):
        t0 = t
        t = self.resolve(t)
        if t.kind == "int":
            if t.bits == 1 or t.bits <= 8:
                return "uint8_t"
            return {16: "uint16_t", 32: "uint32_t", 64: "uint64_t"}[t.bits if t.bits in (16, 32, 64) else 64]
        if t.kind in ("ptr", "func"):
            return "char *"
        if t.kind == "void":
            return "void"
        if t.kind == "struct":
            key = self.canon(t)
            if key not in self.aggs:
                self.aggs[key] = ("agg%d" % len(self.aggs), t)
            return "struct " + self.aggs[key][0]
        raise Unsupported("C type for %s (%s)" % (t.kind, getattr(t0, "name", "")))

    def canon(self, t):
        t = self.resolve(t)
        if t.kind == "struct":
            return ("<" if t.packed else "") + "{" + ",".join(self.canon(f) for f in t.fields) + "}"
        if t.kind == "int":
            return "i%d" % t.bits
        if t.kind in ("ptr", "func"):
            return "p"
        if t.kind == "array":
            return "[%d x %s]" % (t.n, self.canon(t.elem))
        return t.kind


# ------------------------------------------------------------------ helpers

ATTR = re.compile(r"\b(noundef|nonnull|nocapture|readonly|writeonly|readnone|noalias|zeroext|signext|returned|"
                  r"immarg|inreg|nest|swiftself|nofree|align \d+|dereferenceable(_or_null)?\(\d+\)|"
                  r"byval\((?:[^()]|\([^()]*\))*\)|sret\((?:[^()]|\([^()]*\))*\)|inalloca\([^)]*\))")


def strip_attrs(s):
    return re.sub(r"\s+", " ", ATTR.sub("", s)).strip()


def split_top(s, sep=","):
    out, depth, cur = [], 0, ""
    inq = False
    for ch in s:
        if ch == '"':
            inq = not inq
        if not inq:
            if ch in "([{<":
                depth += 1
            elif ch in ")]}>":
                depth -= 1
        if ch == sep and depth == 0 and not inq:
            out.append(cur.strip())
            cur = ""
        else:
            cur += ch
    if cur.strip():
        out.append(cur.strip())
    return out


def split_type_value(s):
    """'i32 %5' / '%struct.x* %0' / 'i8* getelementptr (...)' -> (type string, value string)"""
    s = strip_attrs(s)
    depth, inq = 0, False
    i = 0
    last_space = -1
    # the type ends at the last top-level space before the value token
    # value tokens: %x, @x, number, null, true, false, undef, zeroinitializer, constant exprs
    m = re.search(r'\s(%"[^"]*"|%[\w.$-]+|@"[^"]*"|@[\w.$-]+|-?\d+|null|true|false|undef|poison|zeroinitializer|'
                  r'getelementptr .*|bitcast .*|inttoptr .*|ptrtoint .*|c".*")\s*$', s)
    if not m:
        raise Unsupported("cannot split type/value: %r" % s)
    return s[:m.start()].strip(), m.group(1).strip()


class Module:
    def __init__(self, text):
        self.ty = Types()
        self.text = text
        self.funcs = []
        self.globals = []
        self.aliases = {}
        self.defined = set()
        self.externs = {}
        self.declares = []
        self.parse()
        for ln in self.declares:
            m = re.match(r'declare (.*?)@("[^"]*"|[\w.$-]+)\((.*)\)[^()]*$', ln)
            if not m or m.group(2).startswith("llvm."):
                continue
            rett = strip_attrs(m.group(1))
            args = [strip_attrs(a) for a in split_top(m.group(3)) if a.strip() != "..."]
            try:
                self.externs[san(m.group(2))] = (self.ty.ctype(self.ty.parse(rett)),
                                                 [self.ty.ctype(self.ty.parse(a)) for a in args])
            except Unsupported:
                pass

    def parse(self):
        lines = self.text.splitlines()
        i = 0
        while i < len(lines):
            ln = lines[i]
            if ln.startswith("target datalayout"):
                dl = re.search(r'"(.*)"', ln).group(1)
                if dl != EXPECTED_DL:
                    raise Unsupported("unexpected datalayout " + dl)
            m = re.match(r'(%"[^"]*"|%[\w.$-]+) = type (.*)$', ln)
            if m:
                self.ty.named[m.group(1)[1:]] = self.ty.parse(m.group(2))
            elif ln.startswith("@"):
                self.parse_global(ln)
            elif ln.startswith("declare"):
                self.declares.append(ln)
            elif ln.startswith("define"):
                body = []
                j = i + 1
                while lines[j] != "}":
                    body.append(lines[j])
                    j += 1
                self.funcs.append((ln, body))
                m = re.search(r'@("[^"]*"|[\w.$-]+)\(', ln)
                self.defined.add(m.group(1))
                i = j
            i += 1

    def parse_global(self, ln):
        m = re.match(r'@("[^"]*"|[\w.$-]+) = (.*)$', ln)
        name, rest = m.group(1), m.group(2)
        if " alias " in " " + rest:
            tgt = re.search(r'@("[^"]*"|[\w.$-]+)\s*$', rest).group(1)
            self.aliases[name] = tgt
            return
        if name.startswith("llvm."):
            return
        ext = "external" in rest.split("global")[0].split("constant")[0]
        m2 = re.search(r"\b(global|constant)\b\s+(.*)$", rest)
        body = re.sub(r",\s*(align \d+|section \"[^\"]*\"|comdat[^,]*)", "", m2.group(2)).strip()
        if ext:
            self.globals.append((name, self.ty.parse(body), None, True))
            return
        # type then initializer
        t, rest2 = self.ty._parse(body)
        self.globals.append((name, t, rest2.strip(), False))


# ------------------------------------------------------------------ function translation

class FuncTr:
    def __init__(self, mod, header, body):
        self.m = mod
        self.ty = mod.ty
        self.header = header
        self.body = body
        self.decls = {}
        self.out = []
        self.phis = {}  # block -> list of (var, ctype, [(val, pred)])
        self.vtypes = {}

    def cname(self, v):
        return "v_" + san(v[1:])

    def gname(self, g):
        g = g[1:] if g.startswith("@") else g
        g = self.m.aliases.get(g, g)
        if g in self.m.defined:
            return "F_" + san(g)
        for (n, t, init, ext) in self.m.globals:
            if n == g:
                return ("XG_" if ext else "G_") + san(g)
        return "X_" + san(g)

    def val(self, tstr, v):
        """C expression for IR value v of IR type tstr"""
        v = v.strip()
        if v.startswith("%"):
            return self.cname(v)
        if v.startswith("@"):
            g = v[1:]
            g = self.m.aliases.get(g, g)
            return "((char *) &%s)" % self.gname(v)
        if v in ("null", "zeroinitializer") and self.ty.resolve(self.ty.parse(tstr)).kind in ("ptr", "func"):
            return "((char *) 0)"
        if v in ("undef", "poison", "zeroinitializer"):
            t = self.ty.resolve(self.ty.parse(tstr))
            if t.kind == "struct":
                return "(%s){0}" % self.ty.ctype(t)
            return "0"
        if v == "true":
            return "1"
        if v == "false":
            return "0"
        if re.match(r"-?\d+$", v):
            t = self.ty.resolve(self.ty.parse(tstr))
            n = int(v)
            if t.kind == "int":
                n &= (1 << t.bits) - 1
                return "((%s) %dULL)" % (self.ty.ctype(t), n)
            return str(n)
        m = re.match(r"bitcast \((.*) to (.*)\)$", v)
        if m:
            t0, v0 = split_type_value(m.group(1))
            return self.val(t0, v0)
        m = re.match(r"getelementptr (?:inbounds )?\((.*)\)$", v)
        if m:
            parts = split_top(m.group(1))
            return self.gep_expr(parts[0], parts[1:])
        m = re.match(r"ptrtoint \((.*) to (.*)\)$", v)
        if m:
            t0, v0 = split_type_value(m.group(1))
            return "((%s) (uintptr_t) %s)" % (self.ty.ctype(self.ty.parse(m.group(2))), self.val(t0, v0))
        m = re.match(r"inttoptr \((.*) to (.*)\)$", v)
        if m:
            t0, v0 = split_type_value(m.group(1))
            return "((char *) (uintptr_t) %s)" % self.val(t0, v0)
        raise Unsupported("value: %r" % v)

    def gep_expr(self, base_ty_str, ops):
        t = self.ty.parse(base_ty_str)
        pt, pv = split_type_value(ops[0])
        expr = self.val(pt, pv)
        terms = []
        cur = t
        for k, op in enumerate(ops[1:]):
            it, iv = split_type_value(op)
            if k == 0:
                s, _ = self.ty.size_align(cur)
                terms.append((s, it, iv))
                continue
            r = self.ty.resolve(cur)
            if r.kind == "struct":
                off, ft = self.ty.field_offset(r, int(iv))
                terms.append((off, None, None))
                cur = ft
            elif r.kind == "array":
                s, _ = self.ty.size_align(r.elem)
                terms.append((s, it, iv))
                cur = r.elem
            else:
                raise Unsupported("gep into " + r.kind)
        for s, it, iv in terms:
            if it is None:
                if s:
                    expr = "(%s + %d)" % (expr, s)
            else:
                if re.match(r"-?\d+$", iv):
                    if int(iv) * s:
                        expr = "(%s + (%d))" % (expr, int(iv) * s)
                else:
                    bits = self.ty.resolve(self.ty.parse(it)).bits
                    sv = "(int%d_t) %s" % (bits if bits in (8, 16, 32, 64) else 64, self.val(it, iv))
                    expr = "(%s + (int64_t) (%s) * %d)" % (expr, sv, s)
        return expr

    def declare(self, v, tstr):
        t = self.ty.parse(tstr)
        self.decls[self.cname(v)] = self.ty.ctype(t)
        self.vtypes[v] = tstr

    def signed(self, tstr, expr):
        bits = self.ty.resolve(self.ty.parse(tstr)).bits
        if bits == 1:
            return "(int8_t) (0 - (%s & 1))" % expr
        return "(int%d_t) %s" % (bits, expr)

    def translate(self):
        m = re.match(r"define (.*?)@(\"[^\"]*\"|[\w.$-]+)\((.*)\)[^()]*\{$", self.header)
        pre, name, params = m.group(1), m.group(2), m.group(3)
        rett = strip_attrs(re.sub(r"\b(dso_local|internal|linkonce_odr|weak_odr|hidden|unnamed_addr|local_unnamed_addr|"
                                  r"fastcc|available_externally|private|weak)\b", "", pre)).strip()
        self.rett = rett
        plist = []
        for k, p in enumerate(split_top(params)):
            if p == "...":
                raise Unsupported("variadic definition")
            pt, pv = split_type_value(p) if re.search(r"\s%", strip_attrs(p)) else (strip_attrs(p), "%" + str(k))
            plist.append((pt, pv))
        sig = "%s F_%s(%s)" % (self.ty.ctype(self.ty.parse(rett)), san(name),
                               ", ".join("%s %s" % (self.ty.ctype(self.ty.parse(pt)), self.cname(pv))
                                         for pt, pv in plist) or "void")
        self.sig = sig
        for pt, pv in plist:
            self.vtypes[pv] = pt
        # blocks
        blocks = []
        cur = ("entry", [])
        first_label = None
        for ln in self.body:
            mm = re.match(r"^([\w.$-]+):", ln)
            if mm:
                blocks.append(cur)
                cur = (mm.group(1), [])
                continue
            if ln.strip() and not ln.strip().startswith(";"):
                cur[1].append(ln.strip())
        blocks.append(cur)
        # the entry block is unnamed: its label is the next unused number
        nparams = len(plist)
        entry_name = str(nparams)
        if blocks[0][0] == "entry":
            blocks[0] = (entry_name, blocks[0][1])
        # Lay the blocks out in reverse post-order: CBMC takes every backward jump for a
        # loop, so only genuine back-edges may jump backwards in the emitted text.
        succ = {}
        for bname, ins in blocks:
            term = ins[-1] if ins else ""
            succ[bname] = re.findall(r"label %([\w.$-]+)", term)
        order, seen = [], set()

        def dfs(b):
            stack = [(b, iter(succ.get(b, [])))]
            seen.add(b)
            while stack:
                node, it = stack[-1]
                nxt = next(it, None)
                if nxt is None:
                    order.append(node)
                    stack.pop()
                elif nxt not in seen and nxt in succ:
                    seen.add(nxt)
                    stack.append((nxt, iter(succ[nxt])))
        dfs(blocks[0][0])
        rpo = list(reversed(order))
        bmap = dict(blocks)
        blocks = [(b, bmap[b]) for b in rpo]
        self.blocks = blocks
        # first pass: phis
        for bname, ins in blocks:
            for ln in ins:
                mm = re.match(r"(%[\w.$-]+) = phi (.*?) (\[.*)$", ln)
                if mm:
                    v, tstr, rest = mm.groups()
                    self.declare(v, tstr)
                    self.decls[self.cname(v) + "__in"] = self.decls[self.cname(v)]
                    inc = re.findall(r"\[\s*(.*?),\s*%([\w.$-]+)\s*\]", rest)
                    self.phis.setdefault(bname, []).append((v, tstr, inc))
        body = []
        for bname, ins in blocks:
            body.append("L_%s:;" % san(bname))
            for v, tstr, inc in self.phis.get(bname, []):
                body.append("  %s = %s__in;" % (self.cname(v), self.cname(v)))
            for ln in ins:
                if " = phi " in ln:
                    continue
                try:
                    body += self.instr(bname, ln)
                except Unsupported as e:
                    raise Unsupported("%s   [in: %s]" % (e, ln))
        out = [sig, "{"]
        for n, ct in sorted(self.decls.items()):
            out.append("  %s %s;" % (ct, n))
        out += body
        out.append("}")
        return "\n".join(out)

    def edge(self, frm, to):
        """phi copies for the edge frm -> to, then goto"""
        lines = []
        for v, tstr, inc in self.phis.get(to, []):
            for val, pred in inc:
                if pred == frm:
                    lines.append("%s__in = %s;" % (self.cname(v), self.val(tstr, val)))
        lines.append("goto L_%s;" % san(to))
        return " ".join(lines)

    def instr(self, bname, ln):
        ln = re.sub(r",\s*![\w.]+ !\d+", "", ln)
        ln = re.sub(r",\s*!\w+ !\{[^}]*\}", "", ln)
        ty = self.ty
        m = re.match(r"(%[\w.$-]+) = (.*)$", ln)
        res, rhs = (m.group(1), m.group(2)) if m else (None, ln)
        op = rhs.split()[0]
        if op == "tail" or op == "musttail" or op == "notail":
            rhs = rhs.split(None, 1)[1]
            op = rhs.split()[0]
        if op == "ret":
            if rhs.strip() == "ret void":
                return ["  return;"]
            t, v = split_type_value(rhs[4:])
            return ["  return %s;" % self.val(t, v)]
        if op == "br":
            mm = re.match(r"br label %([\w.$-]+)$", rhs)
            if mm:
                return ["  " + self.edge(bname, mm.group(1))]
            mm = re.match(r"br i1 (.*), label %([\w.$-]+), label %([\w.$-]+)$", rhs)
            return ["  if (%s & 1) { %s } else { %s }" % (self.val("i1", mm.group(1)), self.edge(bname, mm.group(2)),
                                                          self.edge(bname, mm.group(3)))]
        if op == "switch":
            mm = re.match(r"switch (\S+) (\S+), label %([\w.$-]+) \[(.*)\]$", rhs)
            t, v, dflt, cases = mm.groups()
            out = []
            for ct, cv, lab in re.findall(r"(\S+) (-?\d+), label %([\w.$-]+)", cases):
                out.append("  if (%s == %s) { %s }" % (self.val(t, v), self.val(ct, cv), self.edge(bname, lab)))
            out.append("  " + self.edge(bname, dflt))
            return out
        if op == "unreachable":
            return ["  ll_unreachable();"]
        if op == "store":
            parts = split_top(re.sub(r"^store (volatile )?", "", re.sub(r", align \d+$", "", rhs)))
            t, v = split_type_value(parts[0])
            pt, pv = split_type_value(parts[1])
            return ["  *(%s *) %s = %s;" % (ty.ctype(ty.parse(t)), self.val(pt, pv), self.val(t, v))]
        if op == "load":
            parts = split_top(re.sub(r"^load (volatile )?", "", re.sub(r", align \d+$", "", rhs)))
            t = parts[0]
            pt, pv = split_type_value(parts[1])
            self.declare(res, t)
            return ["  %s = *(%s *) %s;" % (self.cname(res), ty.ctype(ty.parse(t)), self.val(pt, pv))]
        if op == "alloca":
            mm = re.match(r"alloca (.*?)(?:, align (\d+))?$", rhs)
            t = ty.parse(mm.group(1))
            s, a = ty.size_align(t)
            self.decls["%s__mem[%d] __attribute__((aligned(%d)))" % (self.cname(res), max(s, 1), max(a, 8))] = "char"
            self.decls[self.cname(res)] = "char *"
            self.vtypes[res] = mm.group(1) + "*"
            return ["  %s = %s__mem;" % (self.cname(res), self.cname(res))]
        if op == "getelementptr":
            mm = re.match(r"getelementptr (?:inbounds )?(.*)$", rhs)
            parts = split_top(mm.group(1))
            self.decls[self.cname(res)] = "char *"
            return ["  %s = %s;" % (self.cname(res), self.gep_expr(parts[0], parts[1:]))]
        if op in ("bitcast", "zext", "sext", "trunc", "ptrtoint", "inttoptr"):
            mm = re.match(r"%s (.*) to (.*)$" % op, rhs)
            t0, v0 = split_type_value(mm.group(1))
            t1 = mm.group(2)
            self.declare(res, t1)
            c1 = ty.ctype(ty.parse(t1))
            e = self.val(t0, v0)
            if op == "sext":
                e = "(%s) (%s)" % (c1.replace("uint", "int"), self.signed(t0, e))
            elif op == "zext":
                b0 = ty.resolve(ty.parse(t0)).bits
                e = "(%s & 1)" % e if b0 == 1 else e
            elif op == "trunc":
                b1 = ty.resolve(ty.parse(t1)).bits
                e = "(%s & 1)" % e if b1 == 1 else e
            elif op == "ptrtoint":
                e = "(uintptr_t) %s" % e
            elif op == "inttoptr":
                e = "(char *) (uintptr_t) %s" % e
            return ["  %s = (%s) %s;" % (self.cname(res), c1, e)]
        if op in ("add", "sub", "mul", "and", "or", "xor", "shl", "lshr", "ashr", "udiv", "urem", "sdiv", "srem"):
            mm = re.match(r"%s (?:nuw |nsw |exact )*(\S+) (.*), (.*)$" % op, rhs)
            t, a, b = mm.groups()
            self.declare(res, t)
            ct = ty.ctype(ty.parse(t))
            A, B = self.val(t, a), self.val(t, b)
            sym = {"add": "+", "sub": "-", "mul": "*", "and": "&", "or": "|", "xor": "^", "shl": "<<", "lshr": ">>",
                   "udiv": "/", "urem": "%"}.get(op)
            bits = ty.resolve(ty.parse(t)).bits
            if sym:
                e = "(%s) ((%s) %s %s (%s) %s)" % (ct, ct, A, sym, ct, B)
            elif op == "ashr":
                e = "(%s) ((%s) >> %s)" % (ct, self.signed(t, A), B)
            else:
                e = "(%s) ((%s) %s (%s))" % (ct, self.signed(t, A), "/" if op == "sdiv" else "%", self.signed(t, B))
            if bits == 1:
                e = "(%s & 1)" % e
            return ["  %s = %s;" % (self.cname(res), e)]
        if op == "icmp":
            mm = re.match(r"icmp (\w+) (.*?) (%[\w.$-]+|@[\w.$-]+|-?\d+|null|true|false|undef), (.*)$", rhs)
            if not mm:
                raise Unsupported("icmp: " + rhs)
            pred, t, a, b = mm.groups()
            self.declare(res, "i1")
            A, B = self.val(t, a), self.val(t, b)
            isptr = ty.resolve(ty.parse(t)).kind in ("ptr", "func")
            symb = {"eq": "==", "ne": "!=", "ugt": ">", "uge": ">=", "ult": "<", "ule": "<=", "sgt": ">", "sge": ">=",
                    "slt": "<", "sle": "<="}[pred]
            if pred.startswith("s") and not isptr:
                A, B = self.signed(t, A), self.signed(t, B)
            elif isptr and pred not in ("eq", "ne"):
                A, B = "(uintptr_t) " + A, "(uintptr_t) " + B
            return ["  %s = (%s %s %s) ? 1 : 0;" % (self.cname(res), A, symb, B)]
        if op == "select":
            mm = re.match(r"select i1 (.*?), (.*)$", rhs)
            parts = split_top(mm.group(2))
            t1, v1 = split_type_value(parts[0])
            t2, v2 = split_type_value(parts[1])
            self.declare(res, t1)
            return ["  %s = (%s & 1) ? %s : %s;" % (self.cname(res), self.val("i1", mm.group(1)), self.val(t1, v1),
                                                   self.val(t2, v2))]
        if op == "insertvalue":
            mm = re.match(r"insertvalue (.*), (\d+)$", rhs)
            parts = split_top(mm.group(1))
            t0, v0 = split_type_value(parts[0])
            t1, v1 = split_type_value(parts[1])
            self.declare(res, t0)
            return ["  %s = %s; %s.f%s = %s;" % (self.cname(res), self.val(t0, v0), self.cname(res), mm.group(2),
                                                 self.val(t1, v1))]
        if op == "extractvalue":
            mm = re.match(r"extractvalue (.*), (\d+)$", rhs)
            t0, v0 = split_type_value(mm.group(1))
            st = ty.resolve(ty.parse(t0))
            ft = st.fields[int(mm.group(2))]
            self.decls[self.cname(res)] = ty.ctype(ft)
            self.vtypes[res] = "?"
            return ["  %s = %s.f%s;" % (self.cname(res), self.val(t0, v0), mm.group(2))]
        if op == "call":
            return self.call(res, rhs)
        raise Unsupported("instruction: " + ln)

    def call(self, res, rhs):
        ty = self.ty
        mm = re.match(r"call (.*?)(@\"[^\"]*\"|@[\w.$-]+|%[\w.$-]+)\((.*)\)(?:\s*#\d+)?$", rhs)
        if not mm:
            raise Unsupported("call: " + rhs)
        rett, callee, args = mm.group(1), mm.group(2), mm.group(3)
        rett = strip_attrs(re.sub(r"\b(fastcc|ccc)\b", "", rett)).strip()
        # function-pointer type in the return slot: "T (args)*" -> keep T
        rett = re.sub(r"\s*\([^()]*(\([^()]*\)[^()]*)*\)\*?$", "", rett).strip() if "(" in rett and not rett.startswith("{") else rett
        argv = []
        for a in split_top(args):
            if a.startswith("metadata"):
                argv.append(None)
                continue
            t, v = split_type_value(a)
            argv.append((t, v))
        name = callee[1:].strip('"')
        if callee.startswith("@") and name.startswith("llvm."):
            if re.match(r"llvm\.(lifetime|invariant|assume|dbg|experimental\.noalias|prefetch)", name):
                return []
            if name.startswith("llvm.memcpy") or name.startswith("llvm.memmove"):
                return ["  ll_memcpy(%s, %s, %s);" % tuple(self.val(t, v) for t, v in argv[:3])]
            if name.startswith("llvm.memset"):
                return ["  ll_memset(%s, %s, %s);" % tuple(self.val(t, v) for t, v in argv[:3])]
            if name == "llvm.umul.with.overflow.i64":
                self.declare(res, "{ i64, i1 }")
                return ["  %s.f0 = %s * %s; %s.f1 = ll_umul_overflows(%s, %s);" % (
                    self.cname(res), self.val(*argv[0]), self.val(*argv[1]), self.cname(res), self.val(*argv[0]),
                    self.val(*argv[1]))]
            raise Unsupported("intrinsic " + name)
        cargs = ", ".join(self.val(t, v) for t, v in argv)
        rct = ty.ctype(ty.parse(rett))
        if callee.startswith("%"):
            fptr = "((%s (*)(%s)) %s)" % (rct, ", ".join(ty.ctype(ty.parse(t)) for t, v in argv) or "void",
                                          self.cname(callee))
            callexpr = "%s(%s)" % (fptr, cargs)
        else:
            g = self.m.aliases.get(name, name)
            if g in self.m.defined:
                callexpr = "F_%s(%s)" % (san(g), cargs)
            else:
                self.m.externs[san(g)] = (rct, [ty.ctype(ty.parse(t)) for t, v in argv])
                callexpr = "X_%s(%s)" % (san(g), cargs)
        if res is None or rct == "void":
            return ["  %s;" % callexpr]
        self.declare(res, rett)
        return ["  %s = %s;" % (self.cname(res), callexpr)]


def translate(text, only=None):
    mod = Module(text)
    funcs = []
    for header, body in mod.funcs:
        name = re.search(r'@("[^"]*"|[\w.$-]+)\(', header).group(1)
        if only is not None and not any(re.search(p, name) for p in only):
            mod.defined.discard(name)
            continue
        funcs.append((name, FuncTr(mod, header, body)))
    bodies = [(n, f.translate()) for n, f in funcs]
    out = ["/* generated by ll2c.py from LLVM IR - do not edit */",
           "#include <stdint.h>", "#include <stddef.h>", "#include \"ll_runtime.h\""]
    for key, (cname, t) in sorted(mod.ty.aggs.items(), key=lambda kv: int(kv[1][0][3:])):
        fields = " ".join("%s f%d;" % (mod.ty.ctype(f), i) for i, f in enumerate(t.fields))
        out.append("struct %s { %s }%s;" % (cname, fields, " __attribute__((packed))" if t.packed else ""))
    for (n, t, init, ext) in mod.globals:
        size, al = mod.ty.size_align(t)
        rt = mod.ty.resolve(t)
        # single-scalar structs (e.g. std::chrono::duration<int>) are emitted as that scalar
        while rt.kind == "struct" and len(rt.fields) == 1:
            rt = mod.ty.resolve(rt.fields[0])
        scalar = mod.ty.ctype(rt) if rt.kind in ("int", "ptr", "func") else None
        if ext:
            out.append("extern %s XG_%s%s;" % (scalar or "char", san(n), "" if scalar else "[%d]" % size))
        elif scalar:
            v = 0
            if init and re.match(r"-?\d+$", init):
                v = int(init) & ((1 << (8 * size)) - 1)
            elif init and init not in ("zeroinitializer", "undef", "null"):
                raise Unsupported("global initializer: %s = %s" % (n, init[:60]))
            out.append("%s G_%s = (%s) %dULL;" % (scalar, san(n), scalar, v))
        else:
            if init and not init.startswith("zeroinitializer") and init != "undef":
                raise Unsupported("global initializer: %s = %s" % (n, init[:60]))
            out.append("char G_%s[%d] __attribute__((aligned(%d))) = {0};" % (san(n), size, max(al, 8)))
    for n, f in funcs:
        out.append(f.sig + ";")
    for name, (rct, argcts) in sorted(mod.externs.items()):
        out.append("%s X_%s(%s);" % (rct, name, ", ".join(argcts) or "void"))
    for n, b in bodies:
        out.append(b)
    return "\n\n".join(out) + "\n"


if __name__ == "__main__":
    src = open(sys.argv[1]).read()
    only = sys.argv[3:] or None
    try:
        c = translate(src, only)
    except Unsupported as e:
        sys.stderr.write("ll2c: unsupported: %s\n" % e)
        sys.exit(2)
    open(sys.argv[2], "w").write(c)
