// wrap.cpp - wrapper TU for the reproc++ sources. It #includes reproc++/src/reproc.cpp (so
// that its static helpers are reachable) and exposes extern "C" entry points over flat
// structs. clang++ -O1 lowers it to LLVM IR, cxx/ll2c.py turns the IR into C, and CBMC
// checks that C against assertions written over the C header's own types.
//
// Templates are instantiated for ONE stated container each: verif::vec (a sequence of
// verif::str) for arguments::from and verif::pvec (a sequence of pairs) for env::from.
#include <reproc.cpp>

#include <reproc/reproc.h>

namespace verif {

struct str {
  using size_type = std::size_t;
  const char *p;
  std::size_t n;
  std::size_t size() const { return n; }
  char operator[](std::size_t i) const { return p[i]; }
};

struct vec {
  using value_type = str;
  const str *b;
  std::size_t n;
  const str *begin() const { return b; }
  const str *end() const { return b + n; }
  std::size_t size() const { return n; }
};

struct pair {
  using first_type = str;
  using second_type = str;
  str first;
  str second;
};

struct pvec {
  using value_type = pair;
  const pair *b;
  std::size_t n;
  const pair *begin() const { return b; }
  const pair *end() const { return b + n; }
  std::size_t size() const { return n; }
};

}

extern "C" {

struct flat_redirect {
  int type;
  int handle;
  FILE *file;
  const char *path;
};

struct flat_options {
  int env_behavior;
  const char *const *env_extra;
  const char *working_directory;
  flat_redirect in, out, err;
  bool parent, discard;
  FILE *file;
  const char *path;
  int stop_action[3];
  int stop_timeout[3];
  int timeout;
  int deadline;
  const uint8_t *input_data;
  size_t input_size;
  bool nonblocking;
};

struct flat_ec {
  int value;
  int is_system;
  int is_generic;
};

// harness callbacks
void vp_inspect_strv(const char *const *v);

static reproc::options unflatten(const flat_options *f)
{
  reproc::options o;
  o.env.behavior = static_cast<reproc::env::type>(f->env_behavior);
  o.env.extra = reproc::env(f->env_extra);
  o.working_directory = f->working_directory;
  o.redirect.in = { static_cast<enum reproc::redirect::type>(f->in.type), f->in.handle, f->in.file, f->in.path };
  o.redirect.out = { static_cast<enum reproc::redirect::type>(f->out.type), f->out.handle, f->out.file, f->out.path };
  o.redirect.err = { static_cast<enum reproc::redirect::type>(f->err.type), f->err.handle, f->err.file, f->err.path };
  o.redirect.parent = f->parent;
  o.redirect.discard = f->discard;
  o.redirect.file = f->file;
  o.redirect.path = f->path;
  o.stop.first = { static_cast<reproc::stop>(f->stop_action[0]), reproc::milliseconds(f->stop_timeout[0]) };
  o.stop.second = { static_cast<reproc::stop>(f->stop_action[1]), reproc::milliseconds(f->stop_timeout[1]) };
  o.stop.third = { static_cast<reproc::stop>(f->stop_action[2]), reproc::milliseconds(f->stop_timeout[2]) };
  o.timeout = reproc::milliseconds(f->timeout);
  o.deadline = reproc::milliseconds(f->deadline);
  o.input = reproc::input(f->input_data, f->input_size);
  o.nonblocking = f->nonblocking;
  return o;
}

static void flatten(const reproc::options &o, flat_options *f)
{
  f->env_behavior = static_cast<int>(o.env.behavior);
  f->env_extra = o.env.extra.data();
  f->working_directory = o.working_directory;
  f->in = { static_cast<int>(o.redirect.in.type), o.redirect.in.handle, o.redirect.in.file, o.redirect.in.path };
  f->out = { static_cast<int>(o.redirect.out.type), o.redirect.out.handle, o.redirect.out.file, o.redirect.out.path };
  f->err = { static_cast<int>(o.redirect.err.type), o.redirect.err.handle, o.redirect.err.file, o.redirect.err.path };
  f->parent = o.redirect.parent;
  f->discard = o.redirect.discard;
  f->file = o.redirect.file;
  f->path = o.redirect.path;
  f->stop_action[0] = static_cast<int>(o.stop.first.action);
  f->stop_action[1] = static_cast<int>(o.stop.second.action);
  f->stop_action[2] = static_cast<int>(o.stop.third.action);
  f->stop_timeout[0] = o.stop.first.timeout.count();
  f->stop_timeout[1] = o.stop.second.timeout.count();
  f->stop_timeout[2] = o.stop.third.timeout.count();
  f->timeout = o.timeout.count();
  f->deadline = o.deadline.count();
  f->input_data = o.input.data();
  f->input_size = o.input.size();
  f->nonblocking = o.nonblocking;
}

static void set_ec(flat_ec *e, const std::error_code &ec)
{
  e->value = ec.value();
  e->is_system = &ec.category() == &std::system_category();
  e->is_generic = &ec.category() == &std::generic_category();
}

__attribute__((noinline)) void vp_options_from(const flat_options *f, bool fork, reproc_options *out)
{
  reproc::options o = unflatten(f);
  *out = reproc::reproc_options_from(o, fork);
}

__attribute__((noinline)) void vp_clone(const flat_options *f, flat_options *out)
{
  reproc::options o = unflatten(f);
  reproc::options c = reproc::options::clone(o);
  flatten(c, out);
}

__attribute__((noinline)) void vp_error_code(int r, flat_ec *e)
{
  set_ec(e, reproc::error_code_from(r));
}

// ---- wrapper methods: each runs on a fresh process object -------------------------
__attribute__((noinline)) void vp_m_start(const flat_options *f, const char *const *argv, flat_ec *e)
{
  reproc::process p;
  reproc::options o = unflatten(f);
  set_ec(e, p.start(reproc::arguments(argv), o));
}

__attribute__((noinline)) int vp_m_fork(const flat_options *f, flat_ec *e)
{
  reproc::process p;
  reproc::options o = unflatten(f);
  std::pair<bool, std::error_code> r = p.fork(o);
  set_ec(e, r.second);
  return r.first;
}

__attribute__((noinline)) size_t vp_m_read(int stream, uint8_t *buf, size_t size, flat_ec *e)
{
  reproc::process p;
  std::pair<size_t, std::error_code> r = p.read(static_cast<reproc::stream>(stream), buf, size);
  set_ec(e, r.second);
  return r.first;
}

__attribute__((noinline)) size_t vp_m_write(const uint8_t *buf, size_t size, flat_ec *e)
{
  reproc::process p;
  std::pair<size_t, std::error_code> r = p.write(buf, size);
  set_ec(e, r.second);
  return r.first;
}

__attribute__((noinline)) void vp_m_close(int stream, flat_ec *e)
{
  reproc::process p;
  set_ec(e, p.close(static_cast<reproc::stream>(stream)));
}

__attribute__((noinline)) int vp_m_wait(int timeout, flat_ec *e)
{
  reproc::process p;
  std::pair<int, std::error_code> r = p.wait(reproc::milliseconds(timeout));
  set_ec(e, r.second);
  return r.first;
}

__attribute__((noinline)) void vp_m_terminate(flat_ec *e)
{
  reproc::process p;
  set_ec(e, p.terminate());
}

__attribute__((noinline)) void vp_m_kill(flat_ec *e)
{
  reproc::process p;
  set_ec(e, p.kill());
}

__attribute__((noinline)) int vp_m_stop(const int *action, const int *timeout, flat_ec *e)
{
  reproc::process p;
  reproc::stop_actions s = { { static_cast<reproc::stop>(action[0]), reproc::milliseconds(timeout[0]) },
                             { static_cast<reproc::stop>(action[1]), reproc::milliseconds(timeout[1]) },
                             { static_cast<reproc::stop>(action[2]), reproc::milliseconds(timeout[2]) } };
  std::pair<int, std::error_code> r = p.stop(s);
  set_ec(e, r.second);
  return r.first;
}

__attribute__((noinline)) int vp_m_pid(flat_ec *e)
{
  reproc::process p;
  std::pair<int, std::error_code> r = p.pid();
  set_ec(e, r.second);
  return r.first;
}

// free poll over two sources
__attribute__((noinline)) void vp_m_poll(const int *interests, int *events, int timeout, flat_ec *e)
{
  reproc::event::source src[2] = { { reproc::process(), interests[0], events[0] },
                                   { reproc::process(), interests[1], events[1] } };
  set_ec(e, reproc::poll(src, 2, reproc::milliseconds(timeout)));
  events[0] = src[0].events;
  events[1] = src[1].events;
}

// member poll
__attribute__((noinline)) int vp_m_poll1(int interests, int timeout, flat_ec *e)
{
  reproc::process p;
  std::pair<int, std::error_code> r = p.poll(interests, reproc::milliseconds(timeout));
  set_ec(e, r.second);
  // the object must still own its handle afterwards, whatever poll returned
  (void) p.pid();
  return r.first;
}

// ---- containers ------------------------------------------------------------------------
__attribute__((noinline)) void vp_args_from(const verif::vec *v)
{
  reproc::arguments a(*v);
  vp_inspect_strv(a.data());
} // destructor releases every new[]

__attribute__((noinline)) void vp_env_from(const verif::pvec *v)
{
  reproc::env e(*v);
  vp_inspect_strv(e.data());
}

__attribute__((noinline)) void vp_args_borrowed(const char *const *argv)
{
  reproc::arguments a(argv);
  vp_inspect_strv(a.data());
} // not owned: nothing may be released

// ---- enumerators and constants: C++ value next to its C counterpart ---------------------
#define PAIR(cxx, c)                                                                             \
  out[n++] = static_cast<int>(cxx);                                                              \
  out[n++] = static_cast<int>(c);

__attribute__((noinline)) int vp_enums(int *out)
{
  int n = 0;
  PAIR(reproc::stop::noop, REPROC_STOP_NOOP)
  PAIR(reproc::stop::wait, REPROC_STOP_WAIT)
  PAIR(reproc::stop::terminate, REPROC_STOP_TERMINATE)
  PAIR(reproc::stop::kill, REPROC_STOP_KILL)
  PAIR(reproc::redirect::default_, REPROC_REDIRECT_DEFAULT)
  PAIR(reproc::redirect::pipe, REPROC_REDIRECT_PIPE)
  PAIR(reproc::redirect::parent, REPROC_REDIRECT_PARENT)
  PAIR(reproc::redirect::discard, REPROC_REDIRECT_DISCARD)
  PAIR(reproc::redirect::stdout_, REPROC_REDIRECT_STDOUT)
  PAIR(reproc::redirect::handle_, REPROC_REDIRECT_HANDLE)
  PAIR(reproc::redirect::file_, REPROC_REDIRECT_FILE)
  PAIR(reproc::redirect::path_, REPROC_REDIRECT_PATH)
  PAIR(reproc::env::extend, REPROC_ENV_EXTEND)
  PAIR(reproc::env::empty, REPROC_ENV_EMPTY)
  PAIR(reproc::stream::in, REPROC_STREAM_IN)
  PAIR(reproc::stream::out, REPROC_STREAM_OUT)
  PAIR(reproc::stream::err, REPROC_STREAM_ERR)
  PAIR(reproc::event::in, REPROC_EVENT_IN)
  PAIR(reproc::event::out, REPROC_EVENT_OUT)
  PAIR(reproc::event::err, REPROC_EVENT_ERR)
  PAIR(reproc::event::exit, REPROC_EVENT_EXIT)
  PAIR(reproc::event::deadline, REPROC_EVENT_DEADLINE)
  PAIR(reproc::signal::kill, REPROC_SIGKILL)
  PAIR(reproc::signal::terminate, REPROC_SIGTERM)
  PAIR(reproc::infinite.count(), REPROC_INFINITE)
  PAIR(reproc::deadline.count(), REPROC_DEADLINE)
  return n;
}
}
