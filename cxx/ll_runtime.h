/* ll_runtime.h - helpers referenced by the C that ll2c.py generates */
#ifndef LL_RUNTIME_H
#define LL_RUNTIME_H
#include <stddef.h>
#include <stdint.h>
static inline void ll_memcpy(char *d, const char *s, uint64_t n)
{
  for (uint64_t i = 0; i < n; i++) {
    d[i] = s[i];
  }
}
static inline void ll_memset(char *d, uint8_t v, uint64_t n)
{
  for (uint64_t i = 0; i < n; i++) {
    d[i] = (char) v;
  }
}
static inline uint8_t ll_umul_overflows(uint64_t a, uint64_t b)
{
  return b != 0 && a > UINT64_MAX / b;
}
void ll_unreachable(void);
#endif
