/* vp_model.h - the nondeterministic POSIX model ("the operating system") that the real
 * reproc sources run against, symbolically under CBMC and natively during replay.
 *
 * Everything the model decides (results, faults, errno values, child behaviour, time)
 * is drawn through vp_choice(), so a CBMC counterexample is a choice vector that the
 * native build replays exactly.
 *
 * State is kept as small flat arrays of scalars (not arrays of structs): CBMC's field
 * sensitivity makes symbolic-index updates of arrays of structs very expensive.
 */
#ifndef VP_MODEL_H
#define VP_MODEL_H

#include "vp.h"

#include <sys/types.h>

#ifndef VP_NFD
#define VP_NFD 18 /* size of the descriptor table; also the scaled descriptor limit */
#endif
#ifndef VP_NOFD
#define VP_NOFD 18 /* open file descriptions */
#endif
#ifndef VP_NPIPE
#define VP_NPIPE 6
#endif
#ifndef VP_CAP
#define VP_CAP 2 /* pipe capacity in bytes; stands for the kernel's 64 KiB */
#endif
#ifndef VP_NCHILD
#define VP_NCHILD 1
#endif
#ifndef VP_NSIG
#define VP_NSIG 6 /* signals the library may send in one harness */
#endif
#ifndef VP_LOG
#define VP_LOG 6 /* bytes remembered per stream direction */
#endif
#ifndef VP_MAXERR
#define VP_MAXERR 6
#endif
#ifndef VP_IO
#define VP_IO 0 /* model the child's reads/writes/closes of its standard streams */
#endif

#define VP_NEVER ((int64_t) 1 << 50)

enum vp_owner { VP_OWN_NONE = 0, VP_OWN_PRE, VP_OWN_USER, VP_OWN_LIB };

enum vp_kind {
  VP_K_NONE = 0,
  VP_K_PIPE_R,
  VP_K_PIPE_W,
  VP_K_NULLDEV,
  VP_K_PATH,
  VP_K_USER, /* a descriptor / FILE supplied by the caller */
  VP_K_STD,  /* what the parent's descriptor 0, 1 or 2 referred to initially */
  VP_K_OTHER /* unrelated descriptors that happen to be open in the parent */
};

/* descriptor table */
extern bool vp_fd_open[VP_NFD];
extern bool vp_fd_cx[VP_NFD];  /* FD_CLOEXEC */
extern int8_t vp_fd_ofd[VP_NFD];  /* open file description */
extern int8_t vp_fd_own[VP_NFD];  /* enum vp_owner */
/* open file descriptions */
extern int8_t vp_of_kind[VP_NOFD];
extern int8_t vp_of_acc[VP_NOFD];   /* O_RDONLY / O_WRONLY / O_RDWR */
extern bool vp_of_nb[VP_NOFD];   /* O_NONBLOCK */
extern int8_t vp_of_refs[VP_NOFD];  /* descriptors of the current table referring to it */
extern int8_t vp_of_pipe[VP_NOFD];
extern const char *vp_of_path[VP_NOFD];
extern int vp_of_flags[VP_NOFD];
extern int8_t vp_of_tag[VP_NOFD];
/* pipes */
extern bool vp_pp_used[VP_NPIPE];
extern int8_t vp_pp_r[VP_NPIPE], vp_pp_w[VP_NPIPE]; /* descriptions of the two ends */
extern int8_t vp_pp_len[VP_NPIPE];
extern uint8_t vp_pp_buf[VP_NPIPE * VP_CAP];
extern bool vp_pp_cr[VP_NPIPE * VP_NCHILD];   /* child c holds the read end */
extern bool vp_pp_cw[VP_NPIPE * VP_NCHILD];   /* child c holds the write end */
extern bool vp_pp_born[VP_NPIPE * VP_NCHILD]; /* existed when child c was forked */
#define VP_PC(p, c) ((p) * VP_NCHILD + (c))

struct vp_snap {
  bool open[VP_NFD];
  bool cx[VP_NFD];
  int8_t ofd[VP_NFD];
  int8_t own[VP_NFD];
};

enum vp_child_state { VP_C_NONE = 0, VP_C_FORKED, VP_C_RUNNING, VP_C_ZOMBIE, VP_C_REAPED };
enum vp_term_mode { VP_TERM_DIES = 0, VP_TERM_IGNORES, VP_TERM_EXITS };
enum vp_cause { VP_CAUSE_NATURAL = 0, VP_CAUSE_TERM, VP_CAUSE_KILL, VP_CAUSE_STARTFAIL };

/* children (index always concrete in the model: loops over c) */
extern int vp_c_state[VP_NCHILD];
extern pid_t vp_c_pid[VP_NCHILD];
extern int64_t vp_c_exit_at[VP_NCHILD]; /* natural end (absolute ms) or VP_NEVER */
extern int vp_c_nat_status[VP_NCHILD];  /* wait status word of the natural end */
extern int vp_c_term_mode[VP_NCHILD];   /* reaction to SIGTERM */
extern int vp_c_term_delay[VP_NCHILD];  /* ms between SIGTERM and the end it causes */
extern int vp_c_term_code[VP_NCHILD];   /* exit code when exiting from a SIGTERM handler */
extern int vp_c_kill_delay[VP_NCHILD];  /* ms between SIGKILL and the end */
extern int64_t vp_c_dead_at[VP_NCHILD]; /* current end time (min over causes) */
extern int vp_c_cause[VP_NCHILD];
extern int vp_c_start_errno[VP_NCHILD]; /* >0: launch failed in the child */
extern int vp_c_resolved[VP_NCHILD];    /* error-pipe reads answered */
extern int vp_c_reaps[VP_NCHILD];
#if VP_IO
extern int vp_c_steps[VP_NCHILD];       /* budget of I/O actions */
extern bool vp_c_closed_in[VP_NCHILD], vp_c_closed_out[VP_NCHILD], vp_c_closed_err[VP_NCHILD];
extern bool vp_c_err_to_out[VP_NCHILD];
extern int vp_c_pipe_in[VP_NCHILD], vp_c_pipe_out[VP_NCHILD], vp_c_pipe_err[VP_NCHILD];
extern uint8_t vp_c_sent_out[VP_NCHILD * VP_LOG], vp_c_sent_err[VP_NCHILD * VP_LOG];
extern uint8_t vp_c_got_in[VP_NCHILD * VP_LOG];
extern int vp_c_n_out[VP_NCHILD], vp_c_n_err[VP_NCHILD], vp_c_n_in[VP_NCHILD];
void vp_child_roles(int c, int fd_in, int fd_out, int fd_err, bool err_to_out, int steps);
#endif
extern int vp_nchild;

struct vp_siglog {
  pid_t pid;
  int sig;
  int64_t at;
};

extern int64_t vp_T;          /* virtual clock, ms */
extern int vp_clock_drift;    /* max ms a clock_gettime call may take (0 = exact) */
extern pid_t vp_sig_pid[VP_NSIG];
extern int vp_sig_no[VP_NSIG];
extern int64_t vp_sig_at[VP_NSIG];
extern int vp_nsigs;
extern int vp_faults_left;    /* fault budget of this path */
extern bool vp_eintr_on;      /* may read/waitpid/open/dup2/close/poll/write report EINTR */
extern int vp_err_seen[VP_MAXERR];
extern int vp_nerr;
extern int vp_live_allocs;
extern long vp_alloc_calls;
extern bool vp_blocked;       /* a read/write/waitpid waited for the child on this path */
extern bool vp_hang_allowed;  /* harness: is blocking forever acceptable right now */
extern bool vp_in_child;      /* executing on the child side of fork */
extern int vp_side_child;     /* harness: fork returns 0 (child side) instead of a pid */
extern uint64_t vp_sigmask;   /* calling thread's signal mask */
extern uint64_t vp_sigmask0;  /* the caller's mask before start */
extern bool vp_sigmask0_valid;
extern int vp_sigaction_calls, vp_chdir_calls, vp_sigprocmask_calls;
extern int vp_calls_pipe, vp_calls_open, vp_calls_fork, vp_calls_total;
extern int vp_kill_calls, vp_waitpid_calls, vp_poll_calls;
extern uint32_t vp_child_dfl; /* child side: signals reset to SIG_DFL */
extern int8_t vp_sig_disp[32]; /* current disposition per signal: 0 default, 1 ignored, 2 handler */
extern bool vp_std_present[3];/* does the parent have FILE stdin/stdout/stderr */
extern int vp_rlim_mode;      /* 0: soft limit = VP_NFD, 1: huge, 2: RLIM_INFINITY */
extern const char *vp_cwd;    /* what getcwd returns */
extern int vp_poll_last_timeout;
extern int64_t vp_poll_last_T;
extern int vp_user_file_fd[2];/* descriptor behind the caller's FILE objects */
extern int vp_user_files[2];  /* the objects the FILE* point to */

/* child-side observations (set by vp_execvp / vp__exit / child write) */
extern int vp_child_reported; /* value written to the error pipe, 0 if none */
extern int vp_child_report_fd;
extern int vp_exec_called, vp_exit_called;

/* ---- harness API --------------------------------------------------------------- */
void vp_init(void);                       /* empty descriptor table, symbolic clock */
int vp_add_fd(int fd, int kind, int acc, int owner, int tag, bool cloexec);
void vp_user_close(int fd);               /* the *caller* closes one of its descriptors */
void vp_new_child_params(int c);
void vp_test_child(int c, int state);
int vp_test_pipe(int c, bool parent_reads, bool child_holds, int len);
void vp_exec_done(void);                  /* children have exec'd: attach their pipe ends */
void vp_progress(void);                   /* let the children act "until now" */
int vp_status_decode(int status);         /* reference decoding: code or 128+sig */
int vp_child_status(int c);               /* wait status word the child ends with */
int vp_count_open(int owner);
void vp_snapshot_table(struct vp_snap *dst);
bool vp_table_equals(const struct vp_snap *snap);
void vp_hang(void);
bool vp_err_was_seen(int e);

/* harness-supplied callbacks (each harness defines them; empty if unused) */
void vp_on_exec(const char *file, char *const argv[]);
void vp_on_exit(int status);
void vp_on_fork(void); /* child side: called when fork() is about to return 0 */

/* ---- libc entry points of the model (reached through vp_shim.h) ---------------- */
struct pollfd;
struct rlimit;
struct sigaction;
struct timespec;

int vp_pipe(int fds[2]);
int vp_close(int fd);
ssize_t vp_read(int fd, void *buf, size_t n);
ssize_t vp_write(int fd, const void *buf, size_t n);
int vp_fcntl(int fd, int cmd, ...);
int vp_open(const char *path, int flags, ...);
int vp_fileno(void *file);
int vp_dup2(int oldfd, int newfd);
pid_t vp_fork(void);
pid_t vp_waitpid(pid_t pid, int *status, int options);
int vp_kill(pid_t pid, int sig);
int vp_poll(struct pollfd *fds, unsigned long n, int timeout);
int vp_chdir(const char *path);
int vp_execvp(const char *file, char *const argv[]);
void vp__exit(int status);
char *vp_getcwd(char *buf, size_t size);
int vp_getrlimit(int resource, struct rlimit *lim);
int vp_sigfillset(void *set);
int vp_sigemptyset(void *set);
int vp_sigaction(int sig, const struct sigaction *act, struct sigaction *old);
int vp_sigprocmask(int how, const void *set, void *old);
int vp_pthread_sigmask(int how, const void *set, void *old);
int vp_clock_gettime(int clk, struct timespec *ts);
void *vp_malloc(size_t n);
void *vp_calloc(size_t a, size_t b);
void *vp_realloc(void *p, size_t n);
void vp_free(void *p);
char *vp_strdup(const char *s);
int vp_strerror_r(int e, char *buf, size_t n);

#endif
