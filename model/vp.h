/* vp.h - portability layer shared by harnesses and the POSIX model.
 *
 * Under CBMC (-DVP_CBMC, passed by the runner to goto-cc) every source of nondeterminism is a solver variable;
 * under a native compiler the same code is driven by a recorded choice vector
 * (replay of a counterexample against the real sources).
 *
 * ALL nondeterminism goes through vp_choice(lo, hi) so that the order of calls
 * is the same symbolically and natively.
 */
#ifndef VP_H
#define VP_H

#include <stdbool.h>
#include <stddef.h>
#include <stdint.h>

/* Per-property switches: the runner passes -DVP_ON_Cxx=1 for the property being
 * decided; assertions of other properties compile to nothing, so a shared
 * harness never leaks one property's verdict into another's. */
#ifdef VP_ON_ALL
#define VP_ON(tag) 1
#else
#define VP_ON(tag) VP_ON_##tag
#endif
#ifndef VP_ON_C01
#define VP_ON_C01 0
#endif
#ifndef VP_ON_C02
#define VP_ON_C02 0
#endif
#ifndef VP_ON_C03
#define VP_ON_C03 0
#endif
#ifndef VP_ON_C04
#define VP_ON_C04 0
#endif
#ifndef VP_ON_C05
#define VP_ON_C05 0
#endif
#ifndef VP_ON_C06
#define VP_ON_C06 0
#endif
#ifndef VP_ON_C07
#define VP_ON_C07 0
#endif
#ifndef VP_ON_C08
#define VP_ON_C08 0
#endif
#ifndef VP_ON_C09
#define VP_ON_C09 0
#endif
#ifndef VP_ON_C10
#define VP_ON_C10 0
#endif
#ifndef VP_ON_C11
#define VP_ON_C11 0
#endif
#ifndef VP_ON_C12
#define VP_ON_C12 0
#endif
#ifndef VP_ON_C13
#define VP_ON_C13 0
#endif
#ifndef VP_ON_C14
#define VP_ON_C14 0
#endif
#ifndef VP_ON_C15
#define VP_ON_C15 0
#endif
#ifndef VP_ON_C16
#define VP_ON_C16 0
#endif
#ifndef VP_ON_C17
#define VP_ON_C17 0
#endif
#ifndef VP_ON_C18
#define VP_ON_C18 0
#endif
#ifndef VP_ON_C19
#define VP_ON_C19 0
#endif
#ifndef VP_ON_C20
#define VP_ON_C20 0
#endif

#ifdef VP_CBMC

int nondet_int(void);
static inline int vp_choice(int lo, int hi)
{
  int v = nondet_int();
  __CPROVER_assume(v >= lo && v <= hi);
  return v;
}
#define VP_ASSERT(tag, cond, text)                                             \
  do {                                                                         \
    if (VP_ON(tag)) {                                                          \
      __CPROVER_assert((cond), #tag ": " text);                                \
    }                                                                          \
  } while (0)
/* Model-integrity assertion: always on (a failure means the harness or model
 * is being driven outside its own contract, reported as inconclusive). */
#define VP_MODEL_ASSERT(cond, text) __CPROVER_assert((cond), "MODEL: " text)
#define VP_ASSUME(cond) __CPROVER_assume(cond)
/* Reachability goal: encoded as an assertion that is EXPECTED TO FAIL. A goal
 * that comes back SUCCESS is unreachable => the harness is vacuous there. */
#define VP_COVER(cond, text) __CPROVER_assert(!(cond), "COVER: " text)
#define VP_END() __CPROVER_assume(0)

#else /* native replay */

#include <stdio.h>
#include <stdlib.h>
int vp_choice(int lo, int hi);
void vp_native_fail(const char *kind, const char *text);
#define VP_ASSERT(tag, cond, text)                                             \
  do {                                                                         \
    if (VP_ON(tag) && !(cond)) {                                               \
      vp_native_fail("ASSERT", #tag ": " text);                                \
    }                                                                          \
  } while (0)
#define VP_MODEL_ASSERT(cond, text)                                            \
  do {                                                                         \
    if (!(cond)) {                                                             \
      vp_native_fail("ASSERT", "MODEL: " text);                                \
    }                                                                          \
  } while (0)
#define VP_ASSUME(cond)                                                        \
  do {                                                                         \
    if (!(cond)) {                                                             \
      vp_native_fail("ASSUME", #cond);                                         \
    }                                                                          \
  } while (0)
#define VP_COVER(cond, text)                                                   \
  do {                                                                         \
    if (cond) {                                                                \
      printf("VP_COVERED %s\n", text);                                         \
    }                                                                          \
  } while (0)
#define VP_END() vp_native_fail("END", "path ended by model")

#endif

static inline int vp_byte(void) { return vp_choice(0, 255); }
static inline bool vp_bool(void) { return vp_choice(0, 1) != 0; }

#endif
