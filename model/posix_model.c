/* posix_model.c - nondeterministic model of the POSIX calls reproc makes.
 *
 * Compiled twice: by goto-cc (every vp_choice is a solver variable) and by gcc for
 * native replay (vp_choice pops the recorded counterexample). This TU is compiled
 * WITHOUT vp_shim.h, so libc names here are the real ones.
 *
 * Contracts modelled (each is an assumption of every claim that uses the model):
 *  - descriptors: lowest free number is allocated; dup2 clears FD_CLOEXEC; O_NONBLOCK
 *    lives on the open file description; close always releases the descriptor even
 *    when it reports an error (Linux).
 *  - pipes: FIFO of VP_CAP bytes (stands for 64 KiB); read returns min(n, available),
 *    0 at end-of-file (no writer left), EAGAIN when empty + O_NONBLOCK, otherwise
 *    waits; write to a pipe without reader fails with EPIPE (SIGPIPE ignored);
 *    blocking write waits until everything is written; nonblocking write is partial
 *    or EAGAIN (PIPE_BUF is scaled to 1 byte).
 *  - poll: POLLIN if data, POLLHUP if no writer, POLLOUT if room and a reader,
 *    POLLERR if no reader, POLLNVAL if not open, negative fd ignored.
 *  - fork: see DESIGN.md 2.3 (two sides, assume/guarantee).
 *  - read on a pipe and waitpid fail only with EINTR; fcntl(F_GETFD) on an open
 *    descriptor does not fail; every other call may fail with any errno 1..133
 *    (EINTR only when vp_eintr_on) while the fault budget lasts.
 *  - clock: non-decreasing, < 2^41 ms.
 */
#define _GNU_SOURCE
#include "vp_model.h"

#include <errno.h>
#include <fcntl.h>
#include <limits.h>
#include <poll.h>
#include <signal.h>
#include <stdarg.h>
#include <stdio.h>
#include <stdlib.h>
#include <string.h>
#include <sys/resource.h>
#include <sys/wait.h>
#include <time.h>
#include <unistd.h>

#ifdef VP_CBMC
/* CBMC's built-in checks are for the code under test, not for the model */
#pragma CPROVER check push
#pragma CPROVER check disable "pointer"
#pragma CPROVER check disable "bounds"
#pragma CPROVER check disable "signed-overflow"
#pragma CPROVER check disable "conversion"
#pragma CPROVER check disable "pointer-primitive"
#pragma CPROVER check disable "div-by-zero"
#pragma CPROVER check disable "undefined-shift"
#pragma CPROVER check disable "pointer-overflow"
#endif

bool vp_fd_open[VP_NFD];
bool vp_fd_cx[VP_NFD];
int8_t vp_fd_ofd[VP_NFD];
int8_t vp_fd_own[VP_NFD];
int8_t vp_of_kind[VP_NOFD];
int8_t vp_of_acc[VP_NOFD];
bool vp_of_nb[VP_NOFD];
int8_t vp_of_refs[VP_NOFD];
int8_t vp_of_pipe[VP_NOFD];
const char *vp_of_path[VP_NOFD];
int vp_of_flags[VP_NOFD];
int8_t vp_of_tag[VP_NOFD];
bool vp_pp_used[VP_NPIPE];
int8_t vp_pp_r[VP_NPIPE], vp_pp_w[VP_NPIPE];
int8_t vp_pp_len[VP_NPIPE];
uint8_t vp_pp_buf[VP_NPIPE * VP_CAP];
bool vp_pp_cr[VP_NPIPE * VP_NCHILD];
bool vp_pp_cw[VP_NPIPE * VP_NCHILD];
bool vp_pp_born[VP_NPIPE * VP_NCHILD];

int vp_c_state[VP_NCHILD];
pid_t vp_c_pid[VP_NCHILD];
int64_t vp_c_exit_at[VP_NCHILD];
int vp_c_nat_status[VP_NCHILD];
int vp_c_term_mode[VP_NCHILD];
int vp_c_term_delay[VP_NCHILD];
int vp_c_term_code[VP_NCHILD];
int vp_c_kill_delay[VP_NCHILD];
int64_t vp_c_dead_at[VP_NCHILD];
int vp_c_cause[VP_NCHILD];
int vp_c_start_errno[VP_NCHILD];
int vp_c_resolved[VP_NCHILD];
int vp_c_reaps[VP_NCHILD];
#if VP_IO
int vp_c_steps[VP_NCHILD];
bool vp_c_closed_in[VP_NCHILD], vp_c_closed_out[VP_NCHILD], vp_c_closed_err[VP_NCHILD];
bool vp_c_err_to_out[VP_NCHILD];
int vp_c_pipe_in[VP_NCHILD], vp_c_pipe_out[VP_NCHILD], vp_c_pipe_err[VP_NCHILD];
uint8_t vp_c_sent_out[VP_NCHILD * VP_LOG], vp_c_sent_err[VP_NCHILD * VP_LOG];
uint8_t vp_c_got_in[VP_NCHILD * VP_LOG];
int vp_c_n_out[VP_NCHILD], vp_c_n_err[VP_NCHILD], vp_c_n_in[VP_NCHILD];
#endif
int vp_nchild;

int64_t vp_T;
int vp_clock_drift;
pid_t vp_sig_pid[VP_NSIG];
int vp_sig_no[VP_NSIG];
int64_t vp_sig_at[VP_NSIG];
int vp_nsigs;
int vp_faults_left;
bool vp_eintr_on;
int vp_err_seen[VP_MAXERR];
int vp_nerr;
int vp_live_allocs;
long vp_alloc_calls;
bool vp_blocked;
bool vp_hang_allowed;
bool vp_in_child;
int vp_side_child;
uint64_t vp_sigmask;
uint64_t vp_sigmask0; /* the caller's mask before start (set by the harness) */
bool vp_sigmask0_valid;
int vp_sigaction_calls, vp_chdir_calls, vp_sigprocmask_calls;
int vp_calls_pipe, vp_calls_open, vp_calls_fork, vp_calls_total;
int vp_kill_calls, vp_waitpid_calls, vp_poll_calls;
uint32_t vp_child_dfl;
int8_t vp_sig_disp[32]; /* disposition of signal n in the running process: 0 default, 1 ignored, 2 handler */
bool vp_std_present[3] = { true, true, true };
int vp_rlim_mode;
const char *vp_cwd = "/w";
int vp_poll_last_timeout;
int64_t vp_poll_last_T;
int vp_user_file_fd[2] = { -1, -1 };
int vp_user_files[2];
int vp_child_reported;
int vp_child_report_fd = -1;
int vp_exec_called, vp_exit_called;

#ifndef VP_DTMAX
#define VP_DTMAX (1 << 30)
#endif
#ifndef VP_MAXEV
#define VP_MAXEV 3 /* events one blocking call may have to wait through */
#endif

/* ------------------------------------------------------------------ helpers */

#ifdef VP_CBMC
#define VP_TRACE(...) ((void) 0)
#else
/* native replay: VP_TRACE=1 prints the system-call history of the counterexample */
extern int vp_trace_on;
#define VP_TRACE(...)                                                          \
  do {                                                                         \
    if (vp_trace_on) {                                                         \
      printf("  [model T=%lld] ", (long long) vp_T);                           \
      printf(__VA_ARGS__);                                                     \
      printf("\n");                                                            \
    }                                                                          \
  } while (0)
#endif

static void vp_note_err(int e)
{
  if (vp_nerr < VP_MAXERR) {
    vp_err_seen[vp_nerr] = e;
    vp_nerr++;
  }
}

bool vp_err_was_seen(int e)
{
  bool seen = false;
  for (int i = 0; i < VP_MAXERR; i++) {
    seen = seen || (i < vp_nerr && vp_err_seen[i] == e);
  }
  return seen;
}

static int vp_fail(int e)
{
  VP_TRACE("  -> fails, errno=%d", e);
  vp_note_err(e);
  errno = e;
  return -1;
}

/* May this call fail now? Consumes one unit of the path's fault budget. */
static bool vp_fault(void)
{
  if (vp_faults_left <= 0) {
    return false;
  }
  if (!vp_bool()) {
    return false;
  }
  vp_faults_left--;
  return true;
}

static int vp_errno_any(bool eintr_possible)
{
  int e = vp_choice(1, 133);
  if (!(eintr_possible && vp_eintr_on)) {
    VP_ASSUME(e != EINTR);
  }
  /* ETIMEDOUT, EPIPE and EAGAIN are never what an injected failure reports: reproc gives these
   * three values a meaning of its own (timeout, closed stream, would block), and none of the
   * modelled calls can fail with them other than through the semantics modelled explicitly */
  VP_ASSUME(e != ETIMEDOUT && e != EPIPE && e != EAGAIN);
  return e;
}

static bool vp_fd_ok(int fd)
{
  return fd >= 0 && fd < VP_NFD && vp_fd_open[fd];
}

static int vp_lowest_free_fd(void)
{
  int r = -1;
  for (int i = VP_NFD - 1; i >= 0; i--) {
    if (!vp_fd_open[i]) {
      r = i;
    }
  }
  return r;
}

static int vp_free_ofd(void)
{
  int r = -1;
  for (int i = VP_NOFD - 1; i >= 0; i--) {
    if (vp_of_kind[i] == VP_K_NONE) {
      r = i;
    }
  }
  return r;
}

static void vp_release(int fd)
{
  int o = vp_fd_ofd[fd];
  vp_fd_open[fd] = false;
  vp_fd_cx[fd] = false;
  vp_fd_own[fd] = VP_OWN_NONE;
  vp_fd_ofd[fd] = -1;
  if (o >= 0 && o < VP_NOFD) {
    vp_of_refs[o]--;
    if (vp_of_refs[o] == 0 && vp_of_kind[o] != VP_K_PIPE_R && vp_of_kind[o] != VP_K_PIPE_W) {
      /* pipe descriptions stay: the pipe object still refers to them */
      vp_of_kind[o] = VP_K_NONE;
    }
  }
}

int vp_add_fd(int fd, int kind, int acc, int owner, int tag, bool cloexec)
{
  int o = vp_free_ofd();
  VP_MODEL_ASSERT(o >= 0 && fd >= 0 && fd < VP_NFD && !vp_fd_open[fd],
                  "vp_add_fd: table space");
  vp_of_kind[o] = kind;
  vp_of_acc[o] = acc;
  vp_of_nb[o] = false;
  vp_of_refs[o] = 1;
  vp_of_pipe[o] = -1;
  vp_of_path[o] = NULL;
  vp_of_flags[o] = 0;
  vp_of_tag[o] = tag;
  vp_fd_open[fd] = true;
  vp_fd_cx[fd] = cloexec;
  vp_fd_ofd[fd] = o;
  vp_fd_own[fd] = owner;
  return o;
}

void vp_init(void)
{
  for (int i = 0; i < VP_NFD; i++) {
    vp_fd_open[i] = false;
    vp_fd_cx[i] = false;
    vp_fd_ofd[i] = -1;
    vp_fd_own[i] = VP_OWN_NONE;
  }
  for (int i = 0; i < VP_NOFD; i++) {
    vp_of_kind[i] = VP_K_NONE;
    vp_of_refs[i] = 0;
    vp_of_pipe[i] = -1;
  }
  for (int i = 0; i < VP_NPIPE; i++) {
    vp_pp_used[i] = false;
  }
  for (int i = 0; i < VP_NCHILD; i++) {
    vp_c_state[i] = VP_C_NONE;
  }
  vp_nchild = 0;
  /* clock: any instant below 2^40 ms */
  /* (one vp_choice per statement: evaluation order inside an expression is unspecified
   * and must be the same under CBMC and natively) */
  int64_t t_hi = vp_choice(0, 1023);
  int64_t t_lo = vp_choice(0, (1 << 30) - 1);
  vp_T = (t_hi << 30) + t_lo;
  errno = 0;
#ifdef VP_CBMC
  /* CBMC leaves these extern FILE* nondeterministic: pin them to distinct objects */
  static int vp_std_obj[3];
  stdin = (FILE *) &vp_std_obj[0];
  stdout = (FILE *) &vp_std_obj[1];
  stderr = (FILE *) &vp_std_obj[2];
#endif
}

void vp_user_close(int fd)
{
  VP_MODEL_ASSERT(vp_fd_ok(fd), "vp_user_close: descriptor open");
  vp_release(fd);
}

int vp_count_open(int owner)
{
  int n = 0;
  for (int i = 0; i < VP_NFD; i++) {
    if (vp_fd_open[i] && vp_fd_own[i] == owner) {
      n++;
    }
  }
  return n;
}

void vp_snapshot_table(struct vp_snap *dst)
{
  for (int i = 0; i < VP_NFD; i++) {
    dst->open[i] = vp_fd_open[i];
    dst->cx[i] = vp_fd_cx[i];
    dst->ofd[i] = vp_fd_ofd[i];
    dst->own[i] = vp_fd_own[i];
  }
}

bool vp_table_equals(const struct vp_snap *s)
{
  bool same = true;
  for (int i = 0; i < VP_NFD; i++) {
    same = same && s->open[i] == vp_fd_open[i] &&
           (!s->open[i] || (s->ofd[i] == vp_fd_ofd[i] && s->cx[i] == vp_fd_cx[i] &&
                            s->own[i] == vp_fd_own[i]));
  }
  return same;
}

void vp_hang(void)
{
  VP_ASSERT(C01, vp_hang_allowed, "a call blocks forever although the child's behaviour does not require it");
  VP_ASSERT(C02, vp_hang_allowed, "a call blocks forever although the child's behaviour does not require it");
  VP_ASSERT(C04, vp_hang_allowed, "start blocks forever");
  VP_ASSERT(C07, vp_hang_allowed, "stop blocks forever although the sequence does not allow it");
  VP_ASSERT(C08, vp_hang_allowed, "wait/poll blocks past its timeout or deadline");
  VP_ASSERT(C09, vp_hang_allowed, "a call blocks forever although the child's behaviour does not require it");
  VP_ASSERT(C14, vp_hang_allowed, "a call blocks forever although the child's behaviour does not require it");
  VP_ASSERT(C15, vp_hang_allowed, "destroy blocks forever although the policy does not allow it");
  VP_ASSERT(C16, vp_hang_allowed, "drain/run blocks forever although the child's behaviour does not require it");
  VP_ASSERT(C17, vp_hang_allowed, "a call blocks forever although the child's behaviour does not require it");
  VP_END();
}

/* ------------------------------------------------------------------ children */

int vp_status_decode(int status)
{
  if ((status & 0x7f) == 0) {
    return (status >> 8) & 0xff;
  }
  return 128 + (status & 0x7f);
}

int vp_child_status(int c)
{
  switch (vp_c_cause[c]) {
    case VP_CAUSE_TERM:
      return vp_c_term_mode[c] == VP_TERM_EXITS ? (vp_c_term_code[c] << 8) : SIGTERM;
    case VP_CAUSE_KILL:
      return SIGKILL;
    case VP_CAUSE_STARTFAIL:
      return 1 << 8;
    default:
      return vp_c_nat_status[c];
  }
}

static void vp_child_die(int c)
{
  vp_c_state[c] = VP_C_ZOMBIE;
  for (int p = 0; p < VP_NPIPE; p++) {
    vp_pp_cr[VP_PC(p, c)] = false;
    vp_pp_cw[VP_PC(p, c)] = false;
  }
}

static void vp_apply_deaths(void)
{
  for (int c = 0; c < VP_NCHILD; c++) {
    if ((vp_c_state[c] == VP_C_RUNNING || vp_c_state[c] == VP_C_FORKED) &&
        vp_c_dead_at[c] <= vp_T) {
      vp_child_die(c);
    }
  }
}

/* After exec the child holds exactly the peer ends of the pipe ends the parent
 * still holds (guarantee G2, checked on the child side). */
static void vp_bind_child(int c)
{
  if (vp_c_state[c] != VP_C_FORKED) {
    return;
  }
  vp_c_state[c] = VP_C_RUNNING;
  for (int p = 0; p < VP_NPIPE; p++) {
    bool pr = vp_pp_used[p] && vp_of_refs[vp_pp_r[p]] > 0;
    bool pw = vp_pp_used[p] && vp_of_refs[vp_pp_w[p]] > 0;
    bool born = vp_pp_used[p] && vp_pp_born[VP_PC(p, c)];
    vp_pp_cr[VP_PC(p, c)] = born && pw && !pr;
    vp_pp_cw[VP_PC(p, c)] = born && pr && !pw;
  }
}

void vp_exec_done(void)
{
  for (int c = 0; c < VP_NCHILD; c++) {
    vp_bind_child(c);
  }
}

static bool vp_pipe_has_writer(int p)
{
  bool w = vp_of_refs[vp_pp_w[p]] > 0;
  for (int c = 0; c < VP_NCHILD; c++) {
    w = w || vp_pp_cw[VP_PC(p, c)];
  }
  return w;
}

static bool vp_pipe_has_reader(int p)
{
  bool r = vp_of_refs[vp_pp_r[p]] > 0;
  for (int c = 0; c < VP_NCHILD; c++) {
    r = r || vp_pp_cr[VP_PC(p, c)];
  }
  return r;
}

static void vp_pipe_push(int p, uint8_t b);
static void vp_pipe_push(int p, uint8_t b)
{
  VP_MODEL_ASSERT(vp_pp_len[p] < VP_CAP, "pipe push within capacity");
  vp_pp_buf[p * VP_CAP + vp_pp_len[p]] = b;
  vp_pp_len[p]++;
}

static uint8_t vp_pipe_pop(int p)
{
  uint8_t b = vp_pp_buf[p * VP_CAP];
  for (int i = 0; i + 1 < VP_CAP; i++) {
    vp_pp_buf[p * VP_CAP + i] = vp_pp_buf[p * VP_CAP + i + 1];
  }
  vp_pp_len[p]--;
  return b;
}

#if VP_IO
/* Tell the model which of the parent's pipe descriptors carry the child's standard
 * streams (the child holds the peer ends) and how many I/O actions it may perform. */
void vp_child_roles(int c, int fd_in, int fd_out, int fd_err, bool err_to_out, int steps)
{
  vp_c_pipe_in[c] = vp_fd_ok(fd_in) ? vp_of_pipe[vp_fd_ofd[fd_in]] : -1;
  vp_c_pipe_out[c] = vp_fd_ok(fd_out) ? vp_of_pipe[vp_fd_ofd[fd_out]] : -1;
  vp_c_pipe_err[c] = vp_fd_ok(fd_err) ? vp_of_pipe[vp_fd_ofd[fd_err]] : -1;
  vp_c_err_to_out[c] = err_to_out;
  vp_c_steps[c] = steps;
  vp_c_closed_in[c] = vp_c_closed_out[c] = vp_c_closed_err[c] = false;
  vp_c_n_out[c] = vp_c_n_err[c] = vp_c_n_in[c] = 0;
}

/* One I/O action of child c; returns false if the chosen action is not enabled. */
static bool vp_child_step(int c)
{
  if (vp_c_state[c] != VP_C_RUNNING || vp_c_steps[c] <= 0) {
    return false;
  }
  int a = vp_choice(0, 5);
  int po = vp_c_pipe_out[c];
  int pe = vp_c_err_to_out[c] ? vp_c_pipe_out[c] : vp_c_pipe_err[c];
  int pi = vp_c_pipe_in[c];
  switch (a) {
    case 0: /* write one byte to stdout */
      if (po < 0 || vp_c_closed_out[c] || vp_c_n_out[c] >= VP_LOG) {
        return false;
      }
      if (vp_of_refs[vp_pp_r[po]] > 0) {
        if (vp_pp_len[po] >= VP_CAP) {
          return false; /* the child is blocked on a full pipe */
        }
        uint8_t b = (uint8_t) vp_byte();
        vp_pipe_push(po, b);
        vp_c_sent_out[c * VP_LOG + vp_c_n_out[c]] = b;
        vp_c_n_out[c]++;
      }
      break;
    case 1: /* write one byte to stderr */
      if (pe < 0 || vp_c_closed_err[c]) {
        return false;
      }
      if (vp_c_err_to_out[c]) {
        /* shares stdout's pipe: the byte joins the stdout sequence in write order */
        if (vp_c_n_out[c] >= VP_LOG) {
          return false;
        }
        if (vp_of_refs[vp_pp_r[pe]] > 0) {
          if (vp_pp_len[pe] >= VP_CAP) {
            return false;
          }
          uint8_t b = (uint8_t) vp_byte();
          vp_pipe_push(pe, b);
          vp_c_sent_out[c * VP_LOG + vp_c_n_out[c]] = b;
          vp_c_n_out[c]++;
        }
      } else {
        if (vp_c_n_err[c] >= VP_LOG) {
          return false;
        }
        if (vp_of_refs[vp_pp_r[pe]] > 0) {
          if (vp_pp_len[pe] >= VP_CAP) {
            return false;
          }
          uint8_t b = (uint8_t) vp_byte();
          vp_pipe_push(pe, b);
          vp_c_sent_err[c * VP_LOG + vp_c_n_err[c]] = b;
          vp_c_n_err[c]++;
        }
      }
      break;
    case 2: /* close stdout */
      if (po < 0 || vp_c_closed_out[c]) {
        return false;
      }
      vp_c_closed_out[c] = true;
      if (!vp_c_err_to_out[c] || vp_c_closed_err[c]) {
        vp_pp_cw[VP_PC(po, c)] = false;
      }
      break;
    case 3: /* close stderr */
      if (pe < 0 || vp_c_closed_err[c]) {
        return false;
      }
      vp_c_closed_err[c] = true;
      if (!vp_c_err_to_out[c] || vp_c_closed_out[c]) {
        vp_pp_cw[VP_PC(pe, c)] = false;
      }
      break;
    case 4: /* read one byte from stdin */
      if (pi < 0 || vp_c_closed_in[c] || vp_pp_len[pi] == 0 || vp_c_n_in[c] >= VP_LOG) {
        return false;
      }
      vp_c_got_in[c * VP_LOG + vp_c_n_in[c]] = vp_pipe_pop(pi);
      vp_c_n_in[c]++;
      break;
    default: /* close stdin */
      if (pi < 0 || vp_c_closed_in[c]) {
        return false;
      }
      vp_c_closed_in[c] = true;
      vp_pp_cr[VP_PC(pi, c)] = false;
      break;
  }
  vp_c_steps[c]--;
  return true;
}
#endif

#ifndef VP_MAXPROG
#define VP_MAXPROG 2
#endif

/* What the children did since the parent last looked. */
void vp_progress(void)
{
  vp_apply_deaths();
#if VP_IO
  for (int c = 0; c < VP_NCHILD; c++) {
    for (int i = 0; i < VP_MAXPROG; i++) {
      if (vp_c_state[c] != VP_C_RUNNING || vp_c_steps[c] <= 0) {
        break;
      }
      if (!vp_bool()) {
        break;
      }
      VP_ASSUME(vp_child_step(c));
    }
  }
#endif
}

/* The parent waits, nothing it waits for is true now. Advance to the next thing
 * that happens no later than `limit`. false: nothing happens until then. */
static bool vp_wait_event(int64_t limit)
{
  int64_t tdeath = VP_NEVER;
  for (int c = 0; c < VP_NCHILD; c++) {
    if (vp_c_state[c] == VP_C_RUNNING && vp_c_dead_at[c] < tdeath) {
      tdeath = vp_c_dead_at[c];
    }
  }
#if VP_IO
  for (int c = 0; c < VP_NCHILD; c++) {
    if (vp_c_state[c] == VP_C_RUNNING && vp_c_steps[c] > 0 && vp_bool()) {
      int64_t t = vp_T + vp_choice(0, VP_DTMAX);
      VP_ASSUME(t <= limit && t <= tdeath);
      vp_T = t;
      VP_ASSUME(vp_child_step(c));
      return true;
    }
  }
#endif
  if (tdeath <= limit && tdeath != VP_NEVER) {
    if (tdeath > vp_T) {
      vp_T = tdeath;
    }
    vp_apply_deaths();
    return true;
  }
  if (limit != VP_NEVER && limit > vp_T) {
    vp_T = limit;
  }
  return false;
}

void vp_new_child_params(int c)
{
  bool never = vp_bool();
  int64_t life = vp_choice(0, VP_DTMAX);
  vp_c_exit_at[c] = never ? VP_NEVER : vp_T + life;
  if (vp_bool()) {
    vp_c_nat_status[c] = vp_choice(0, 255) << 8;
  } else {
    int sig = vp_choice(1, 64); /* terminating signals; 0x7f would encode "stopped" */
    int core = vp_choice(0, 1);
    vp_c_nat_status[c] = sig | (core << 7);
  }
  vp_c_term_mode[c] = vp_choice(0, 2);
  vp_c_term_delay[c] = vp_choice(0, VP_DTMAX);
  vp_c_term_code[c] = vp_choice(0, 255);
  vp_c_kill_delay[c] = vp_choice(0, VP_DTMAX);
  vp_c_dead_at[c] = vp_c_exit_at[c];
  vp_c_cause[c] = VP_CAUSE_NATURAL;
  vp_c_start_errno[c] = 0;
  vp_c_resolved[c] = 0;
  vp_c_reaps[c] = 0;
#if VP_IO
  vp_c_steps[c] = 0;
  vp_c_pipe_in[c] = vp_c_pipe_out[c] = vp_c_pipe_err[c] = -1;
#endif
}

/* ------------------------------------------------------------------ state builders
 * (for harnesses that construct a started handle directly instead of running start) */

/* child c exists: RUNNING, dead-but-unreaped or REAPED, with fresh symbolic behaviour */
void vp_test_child(int c, int state)
{
  vp_new_child_params(c);
  vp_c_pid[c] = (pid_t) (1000 + c);
  vp_c_state[c] = state;
  if (state != VP_C_RUNNING) {
    vp_c_dead_at[c] = vp_T;
  } else {
    VP_ASSUME(vp_c_dead_at[c] > vp_T);
  }
  if (vp_nchild <= c) {
    vp_nchild = c + 1;
  }
}

/* a library-owned, close-on-exec pipe between the parent and child c; the parent keeps
 * the read end (parent_reads) or the write end; `child_holds`: the child still has its
 * end open; `len` symbolic bytes are already in the pipe. Returns the parent's descriptor. */
int vp_test_pipe(int c, bool parent_reads, bool child_holds, int len)
{
  int fds[2];
  int saved = vp_faults_left;
  vp_faults_left = 0;
  int r = vp_pipe(fds);
  vp_faults_left = saved;
  VP_MODEL_ASSERT(r == 0, "vp_test_pipe: table space");
  vp_fd_cx[fds[0]] = true;
  vp_fd_cx[fds[1]] = true;
  int p = vp_of_pipe[vp_fd_ofd[fds[0]]];
  vp_pp_born[VP_PC(p, c)] = true;
  for (int i = 0; i < VP_CAP; i++) {
    uint8_t b = (uint8_t) vp_byte();
    if (i < len) {
      vp_pipe_push(p, b);
    }
  }
  if (parent_reads) {
    vp_release(fds[1]);
    vp_pp_cw[VP_PC(p, c)] = child_holds;
    return fds[0];
  }
  vp_release(fds[0]);
  vp_pp_cr[VP_PC(p, c)] = child_holds;
  return fds[1];
}

/* ------------------------------------------------------------------ descriptors */

int vp_pipe(int fds[2])
{
  vp_calls_pipe++;
  vp_calls_total++;
  if (vp_fault()) {
    return vp_fail(vp_errno_any(false));
  }
  int p = -1;
  for (int i = VP_NPIPE - 1; i >= 0; i--) {
    if (!vp_pp_used[i]) {
      p = i;
    }
  }
  int r = vp_lowest_free_fd();
  if (r < 0 || p < 0) {
    return vp_fail(EMFILE);
  }
  int orr = vp_add_fd(r, VP_K_PIPE_R, O_RDONLY, VP_OWN_LIB, 0, false);
  int w = vp_lowest_free_fd();
  if (w < 0) {
    vp_release(r);
    vp_of_kind[orr] = VP_K_NONE;
    return vp_fail(EMFILE);
  }
  int ow = vp_add_fd(w, VP_K_PIPE_W, O_WRONLY, VP_OWN_LIB, 0, false);
  vp_of_pipe[orr] = p;
  vp_of_pipe[ow] = p;
  vp_pp_used[p] = true;
  vp_pp_r[p] = orr;
  vp_pp_w[p] = ow;
  vp_pp_len[p] = 0;
  for (int c = 0; c < VP_NCHILD; c++) {
    vp_pp_cr[VP_PC(p, c)] = false;
    vp_pp_cw[VP_PC(p, c)] = false;
    vp_pp_born[VP_PC(p, c)] = false;
  }
  fds[0] = r;
  fds[1] = w;
  VP_TRACE("pipe() = [%d,%d] (pipe #%d)", r, w, p);
  return 0;
}

int vp_close(int fd)
{
  vp_calls_total++;
  VP_TRACE("close(%d)%s", fd, vp_in_child ? " [child]" : "");
  if (!vp_fd_ok(fd)) {
    VP_ASSERT(C05, vp_in_child, "close() of a descriptor that is not open (double or stray close)");
    VP_ASSERT(C14, vp_in_child, "close() of a descriptor that is not open (double or stray close)");
    VP_ASSERT(C20, vp_in_child, "close() of a descriptor that is not open: with threads this hits another thread's descriptor");
    return vp_fail(EBADF);
  }
  if (!vp_in_child) {
    VP_ASSERT(C05, vp_fd_own[fd] == VP_OWN_LIB,
              "close() of a descriptor the library did not open (user handle, FILE or standard stream)");
    VP_ASSERT(C10, vp_fd_own[fd] == VP_OWN_LIB,
              "close() of a descriptor the library did not open (user handle, FILE or standard stream)");
  }
  vp_release(fd);
  if (vp_fault()) {
    /* Linux: the descriptor is gone even though close reports an error */
    return vp_fail(vp_errno_any(true));
  }
  return 0;
}

int vp_dup2(int oldfd, int newfd)
{
  vp_calls_total++;
  VP_TRACE("dup2(%d,%d)", oldfd, newfd);
  if (!vp_fd_ok(oldfd) || newfd < 0 || newfd >= VP_NFD) {
    return vp_fail(EBADF);
  }
  if (vp_fault()) {
    return vp_fail(vp_errno_any(true));
  }
  if (oldfd == newfd) {
    return newfd;
  }
  if (vp_fd_open[newfd]) {
    vp_release(newfd);
  }
  vp_fd_open[newfd] = true;
  vp_fd_cx[newfd] = false;
  vp_fd_ofd[newfd] = vp_fd_ofd[oldfd];
  vp_fd_own[newfd] = vp_fd_own[oldfd];
  vp_of_refs[vp_fd_ofd[oldfd]]++;
  return newfd;
}

int vp_fcntl(int fd, int cmd, ...)
{
  va_list ap;
  va_start(ap, cmd);
  int arg = va_arg(ap, int);
  va_end(ap);
  vp_calls_total++;
  VP_TRACE("fcntl(%d, %s, 0x%x)", fd, cmd == F_GETFD ? "F_GETFD" : cmd == F_SETFD ? "F_SETFD" : cmd == F_GETFL ? "F_GETFL" : cmd == F_SETFL ? "F_SETFL" : "F_DUPFD[_CLOEXEC]", arg);
  if (!vp_fd_ok(fd)) {
    errno = EBADF; /* the ordinary answer for a closed descriptor, not a fault */
    return -1;
  }
  int o = vp_fd_ofd[fd];
  switch (cmd) {
    case F_GETFD:
      return vp_fd_cx[fd] ? FD_CLOEXEC : 0;
    case F_SETFD:
      if (vp_fault()) {
        return vp_fail(vp_errno_any(false));
      }
      vp_fd_cx[fd] = (arg & FD_CLOEXEC) != 0;
      return 0;
    case F_GETFL:
      if (vp_fault()) {
        return vp_fail(vp_errno_any(false));
      }
      return vp_of_acc[o] | (vp_of_nb[o] ? O_NONBLOCK : 0);
    case F_SETFL:
      if (vp_fault()) {
        return vp_fail(vp_errno_any(false));
      }
      vp_of_nb[o] = (arg & O_NONBLOCK) != 0;
      return 0;
    case F_DUPFD:
    case F_DUPFD_CLOEXEC: {
      /* lowest free descriptor >= arg, referring to the same open file description */
      if (vp_fault()) {
        return vp_fail(vp_errno_any(true));
      }
      if (arg < 0 || arg >= VP_NFD) {
        return vp_fail(EINVAL);
      }
      int n = -1;
      for (int i = VP_NFD - 1; i >= 0; i--) {
        if (i >= arg && !vp_fd_open[i]) {
          n = i;
        }
      }
      if (n < 0) {
        return vp_fail(EMFILE);
      }
      vp_fd_open[n] = true;
      vp_fd_cx[n] = cmd == F_DUPFD_CLOEXEC;
      vp_fd_ofd[n] = o;
      vp_fd_own[n] = vp_fd_own[fd];
      vp_of_refs[o]++;
      return n;
    }
    default:
      VP_MODEL_ASSERT(false, "fcntl command not modelled");
      return vp_fail(EINVAL);
  }
}

int vp_open(const char *path, int flags, ...)
{
  vp_calls_open++;
  vp_calls_total++;
  VP_TRACE("open(\"%s\", 0x%x) ...", path, flags);
  if (vp_fault()) {
    return vp_fail(vp_errno_any(true));
  }
  int fd = vp_lowest_free_fd();
  if (fd < 0) {
    return vp_fail(EMFILE);
  }
  bool null = path[0] == '/' && path[1] == 'd' && path[2] == 'e' && path[3] == 'v' &&
              path[4] == '/' && path[5] == 'n' && path[6] == 'u' && path[7] == 'l' &&
              path[8] == 'l' && path[9] == '\0';
  int o = vp_add_fd(fd, null ? VP_K_NULLDEV : VP_K_PATH, flags & O_ACCMODE, VP_OWN_LIB, 0,
                    (flags & O_CLOEXEC) != 0);
  vp_of_path[o] = path;
  vp_of_flags[o] = flags;
  VP_TRACE("open(\"%s\", 0x%x) = %d", path, flags, fd);
  return fd;
}

int vp_fileno(void *file)
{
  vp_calls_total++;
  VP_TRACE("fileno(%s)", file == (void *) stdin ? "stdin" : file == (void *) stdout ? "stdout" : file == (void *) stderr ? "stderr" : "user FILE");
  int s = file == (void *) stdin ? 0 : file == (void *) stdout ? 1
          : file == (void *) stderr                            ? 2
                                                               : -1;
  if (s >= 0) {
    if (!vp_std_present[s]) {
      errno = EBADF; /* the parent has no such stream: not a fault */
      return -1;
    }
    return s;
  }
  for (int i = 0; i < 2; i++) {
    if (file == (void *) &vp_user_files[i]) {
      if (vp_fault()) {
        return vp_fail(vp_errno_any(false));
      }
      return vp_user_file_fd[i];
    }
  }
  VP_MODEL_ASSERT(false, "fileno on an unknown FILE object");
  return vp_fail(EBADF);
}

/* ------------------------------------------------------------------ data transfer */

ssize_t vp_read(int fd, void *buf, size_t n)
{
  vp_calls_total++;
  VP_TRACE("read(%d, %zu)", fd, n);
  if (!vp_fd_ok(fd)) {
    VP_ASSERT(C05, false, "read() on a descriptor that is not open");
    VP_ASSERT(C14, false, "read() on a descriptor that is not open");
    VP_ASSERT(C20, false, "read() on a descriptor that is not open (a field the reader does not own?)");
    return vp_fail(EBADF);
  }
  int o = vp_fd_ofd[fd];
  if (vp_of_kind[o] != VP_K_PIPE_R) {
    /* not open for reading: EBADF (found by tools/conformance.sh for /dev/null opened O_WRONLY);
     * anything else readable that is not a pipe is at end-of-file */
    return vp_of_kind[o] == VP_K_PIPE_W || vp_of_acc[o] == O_WRONLY ? vp_fail(EBADF) : 0;
  }
  if (vp_eintr_on && vp_fault()) {
    return vp_fail(EINTR);
  }
  int p = vp_of_pipe[o];
  uint8_t *dst = (uint8_t *) buf;

  /* Error pipe of a child that has not reported the outcome of its launch yet. */
  for (int c = 0; c < VP_NCHILD; c++) {
    if (vp_c_state[c] == VP_C_FORKED && vp_pp_born[VP_PC(p, c)] && vp_pp_cw[VP_PC(p, c)] &&
        vp_pp_len[p] == 0) {
      if (vp_of_refs[vp_pp_w[p]] > 0) {
        if (vp_of_nb[o]) {
          return vp_fail(EAGAIN);
        }
        vp_hang(); /* the parent itself still holds the write end */
      }
      if (vp_bool()) {
        /* the child failed before exec: it reports errno e and exits (G1) */
        int e = vp_choice(1, 133);
        vp_c_start_errno[c] = e;
        vp_note_err(e);
        vp_c_cause[c] = VP_CAUSE_STARTFAIL;
        vp_c_dead_at[c] = vp_T;
        vp_child_die(c);
        vp_c_resolved[c]++;
        VP_MODEL_ASSERT(n >= sizeof(int), "error pipe read asks for an int");
        for (size_t i = 0; i < sizeof(int); i++) {
          dst[i] = ((uint8_t *) &e)[i];
        }
        return (ssize_t) sizeof(int);
      }
      /* this stage succeeded: the child closed its end (or exec did) */
      vp_pp_cw[VP_PC(p, c)] = false;
      vp_c_resolved[c]++;
      return 0;
    }
  }

  vp_progress();
  for (int it = 0; it <= VP_MAXEV; it++) {
    if (vp_pp_len[p] > 0) {
      size_t k = 0;
      for (int i = 0; i < VP_CAP; i++) { /* constant bound: at most VP_CAP bytes */
        if (k < n && vp_pp_len[p] > 0) {
          dst[k++] = vp_pipe_pop(p);
        }
      }
      return (ssize_t) k;
    }
    if (n == 0) {
      return 0;
    }
    if (!vp_pipe_has_writer(p)) {
      return 0;
    }
    if (vp_of_nb[o]) {
      vp_note_err(EAGAIN);
      errno = EAGAIN;
      return -1;
    }
    vp_blocked = true;
    if (!vp_wait_event(VP_NEVER)) {
      vp_hang();
    }
  }
  VP_MODEL_ASSERT(false, "event bound VP_MAXEV exceeded in read");
  VP_END();
  return -1;
}

ssize_t vp_write(int fd, const void *buf, size_t n)
{
  vp_calls_total++;
  VP_TRACE("write(%d, %zu)%s", fd, n, vp_in_child ? " [child]" : "");
  const uint8_t *src = (const uint8_t *) buf;
  if (vp_in_child) {
    /* child side: the only write is the error report */
    VP_MODEL_ASSERT(n == sizeof(int), "child writes an int to the error pipe");
    if (vp_fd_ok(fd) && vp_of_kind[vp_fd_ofd[fd]] == VP_K_PIPE_W) {
      int v = 0;
      for (size_t i = 0; i < sizeof(int); i++) {
        ((uint8_t *) &v)[i] = src[i];
      }
      vp_child_reported = v;
      vp_child_report_fd = fd;
      return (ssize_t) n;
    }
    return vp_fail(EBADF);
  }
  if (!vp_fd_ok(fd)) {
    VP_ASSERT(C05, false, "write() on a descriptor that is not open");
    VP_ASSERT(C14, false, "write() on a descriptor that is not open");
    VP_ASSERT(C20, false, "write() on a descriptor that is not open (a field the writer does not own?)");
    return vp_fail(EBADF);
  }
  int o = vp_fd_ofd[fd];
  if (vp_of_kind[o] != VP_K_PIPE_W) {
    return vp_of_kind[o] == VP_K_PIPE_R || vp_of_acc[o] == O_RDONLY ? vp_fail(EBADF) : (ssize_t) n;
  }
  if (vp_fault()) {
    /* EPIPE and EAGAIN have a meaning of their own for write (no reader / would block):
     * an injected failure is any OTHER errno */
    int e = vp_errno_any(true);
    VP_ASSUME(e != EPIPE && e != EAGAIN);
    return vp_fail(e);
  }
  int p = vp_of_pipe[o];
  vp_exec_done();
  vp_progress();
  size_t done = 0;
  for (int it = 0; it <= VP_MAXEV; it++) {
    if (!vp_pipe_has_reader(p)) {
      if (done > 0) {
        return (ssize_t) done;
      }
      vp_note_err(EPIPE);
      errno = EPIPE;
      return -1;
    }
    for (int i = 0; i < VP_CAP; i++) { /* constant bound */
      if (done < n && vp_pp_len[p] < VP_CAP) {
        vp_pipe_push(p, src[done++]);
      }
    }
    if (done == n) {
      return (ssize_t) n;
    }
    if (vp_of_nb[o]) {
      if (done > 0) {
        return (ssize_t) done;
      }
      vp_note_err(EAGAIN);
      errno = EAGAIN;
      return -1;
    }
    vp_blocked = true;
    if (!vp_wait_event(VP_NEVER)) {
      vp_hang();
    }
  }
  VP_MODEL_ASSERT(false, "event bound VP_MAXEV exceeded in write");
  VP_END();
  return -1;
}

/* fill revents for the current state, return the number of descriptors with events */
static int vp_poll_scan(struct pollfd *fds, unsigned long n)
{
  int cnt = 0;
  for (unsigned long i = 0; i < n; i++) {
    short re = 0;
    int fd = fds[i].fd;
    if (fd < 0) {
      fds[i].revents = 0;
      continue;
    }
    if (!vp_fd_ok(fd)) {
      re = POLLNVAL;
    } else {
      int o = vp_fd_ofd[fd];
      int p = vp_of_pipe[o];
      if (vp_of_kind[o] == VP_K_PIPE_R) {
        if (vp_pp_len[p] > 0 && (fds[i].events & POLLIN)) {
          re |= POLLIN;
        }
        if (!vp_pipe_has_writer(p)) {
          re |= POLLHUP;
        }
      } else if (vp_of_kind[o] == VP_K_PIPE_W) {
        /* as Linux does: POLLOUT whenever there is room, POLLERR (also) when no reader is left */
        if (vp_pp_len[p] < VP_CAP && (fds[i].events & POLLOUT)) {
          re |= POLLOUT;
        }
        if (!vp_pipe_has_reader(p)) {
          re |= POLLERR;
        }
      } else {
        re = fds[i].events & (POLLIN | POLLOUT);
      }
    }
    fds[i].revents = re;
    if (re != 0) {
      cnt++;
    }
  }
  return cnt;
}

int vp_poll(struct pollfd *fds, unsigned long n, int timeout)
{
  vp_calls_total++;
  vp_poll_calls++;
  vp_poll_last_timeout = timeout;
  vp_poll_last_T = vp_T;
  VP_TRACE("poll(n=%lu, fd0=%d, timeout=%d)", n, n ? fds[0].fd : -1, timeout);
  vp_exec_done();
  vp_progress();
  if (vp_fault()) {
    int e = vp_errno_any(true);
    if (e == EINTR && timeout != 0 && vp_poll_scan(fds, n) == 0) {
      /* a signal handler interrupts the wait: part of the timeout has already elapsed and
       * nothing that would have ended the wait happened in between */
      int dt = vp_choice(0, VP_DTMAX);
      VP_ASSUME(timeout < 0 || dt <= timeout);
      for (int c = 0; c < VP_NCHILD; c++) {
        VP_ASSUME((vp_c_state[c] != VP_C_RUNNING && vp_c_state[c] != VP_C_FORKED) || vp_c_dead_at[c] > vp_T + dt);
      }
      vp_T += dt;
    }
    return vp_fail(e);
  }
  int64_t limit = timeout < 0 ? VP_NEVER : vp_T + timeout;
  for (int it = 0; it <= VP_MAXEV; it++) {
    int cnt = vp_poll_scan(fds, n);
    if (cnt > 0) {
      return cnt;
    }
    if (timeout == 0) {
      return 0;
    }
    if (!vp_wait_event(limit)) {
      if (limit == VP_NEVER) {
        vp_hang();
      }
      return 0;
    }
  }
  VP_MODEL_ASSERT(false, "event bound VP_MAXEV exceeded in poll");
  VP_END();
  return -1;
}

/* ------------------------------------------------------------------ processes */

pid_t vp_fork(void)
{
  vp_calls_fork++;
  vp_calls_total++;
  VP_TRACE("fork() %s", vp_side_child ? "[continuing as the child]" : "[parent side]");
  if (vp_fault()) {
    return vp_fail(vp_errno_any(false));
  }
  if (vp_side_child) {
    vp_in_child = true;
    vp_on_fork();
    return 0;
  }
  VP_MODEL_ASSERT(vp_nchild < VP_NCHILD, "more forks than VP_NCHILD");
  pid_t pid = (pid_t) vp_choice(2, 1 << 22);
  for (int c = 0; c < VP_NCHILD; c++) {
    if (c == vp_nchild) {
      vp_new_child_params(c);
      vp_c_state[c] = VP_C_FORKED;
      vp_c_pid[c] = pid;
      for (int p = 0; p < VP_NPIPE; p++) {
        bool u = vp_pp_used[p];
        vp_pp_born[VP_PC(p, c)] = u;
        vp_pp_cr[VP_PC(p, c)] = u && vp_of_refs[vp_pp_r[p]] > 0;
        vp_pp_cw[VP_PC(p, c)] = u && vp_of_refs[vp_pp_w[p]] > 0;
      }
    } else if (c < vp_nchild) {
      VP_ASSUME(vp_c_pid[c] != pid || vp_c_state[c] == VP_C_REAPED);
    }
  }
  vp_nchild++;
  return pid;
}

/* index of the library's child with this pid, or -1 */
static int vp_target(pid_t pid)
{
  int found = -1;
  for (int c = 0; c < VP_NCHILD; c++) {
    if (found < 0 && vp_c_state[c] != VP_C_NONE && vp_c_pid[c] == pid) {
      found = c;
    }
  }
  bool reaped = false;
  for (int c = 0; c < VP_NCHILD; c++) {
    reaped = reaped || (found == c && vp_c_state[c] == VP_C_REAPED);
  }
  VP_ASSERT(C06, pid > 0, "signal/reap target is not a positive pid");
  VP_ASSERT(C06, found >= 0, "signal/reap target is not a child this library started");
  VP_ASSERT(C06, !reaped, "signal/reap of a child that has already been reaped");
  VP_ASSERT(C01, !reaped, "second reap (or signal) of a child that has already been reaped");
  VP_ASSERT(C14, pid > 0 && found >= 0, "kill/waitpid on something that is not the library's child");
  VP_ASSERT(C20, pid > 0 && found >= 0,
            "signal/reap not aimed at this handle's own child: with several threads it hits another handle's child");
  return reaped ? -1 : found;
}

pid_t vp_waitpid(pid_t pid, int *status, int options)
{
  vp_calls_total++;
  vp_waitpid_calls++;
  VP_TRACE("waitpid(%d)", (int) pid);
  VP_MODEL_ASSERT(options == 0, "waitpid options not modelled");
  int t = vp_target(pid);
  if (t < 0) {
    return vp_fail(ECHILD);
  }
  if (vp_eintr_on && vp_fault()) {
    return vp_fail(EINTR);
  }
  for (int c = 0; c < VP_NCHILD; c++) {
    if (c != t) {
      continue;
    }
    vp_bind_child(c);
    vp_progress();
    for (int it = 0; it <= VP_MAXEV; it++) {
      if (vp_c_state[c] == VP_C_ZOMBIE) {
        vp_c_state[c] = VP_C_REAPED;
        vp_c_reaps[c]++;
        if (status != NULL) {
          *status = vp_child_status(c);
        }
        return pid;
      }
      vp_blocked = true;
      if (!vp_wait_event(VP_NEVER)) {
        vp_hang();
      }
    }
  }
  VP_MODEL_ASSERT(false, "event bound VP_MAXEV exceeded in waitpid");
  VP_END();
  return -1;
}

int vp_kill(pid_t pid, int sig)
{
  vp_calls_total++;
  vp_kill_calls++;
  VP_TRACE("kill(%d, %d)", (int) pid, sig);
  int t = vp_target(pid);
  if (t < 0) {
    return vp_fail(ESRCH);
  }
  if (vp_fault()) {
    return vp_fail(vp_errno_any(false));
  }
  for (int i = 0; i < VP_NSIG; i++) {
    if (i == vp_nsigs) {
      vp_sig_pid[i] = pid;
      vp_sig_no[i] = sig;
      vp_sig_at[i] = vp_T;
    }
  }
  vp_nsigs++;
  for (int c = 0; c < VP_NCHILD; c++) {
    if (c != t) {
      continue;
    }
    vp_bind_child(c);
    vp_apply_deaths();
    if (vp_c_state[c] == VP_C_RUNNING) {
      if (sig == SIGKILL) {
        int64_t at = vp_T + vp_c_kill_delay[c];
        if (at < vp_c_dead_at[c]) {
          vp_c_dead_at[c] = at;
          vp_c_cause[c] = VP_CAUSE_KILL;
        }
      } else if (sig == SIGTERM && vp_c_term_mode[c] != VP_TERM_IGNORES) {
        int64_t at = vp_T + vp_c_term_delay[c];
        if (at < vp_c_dead_at[c]) {
          vp_c_dead_at[c] = at;
          vp_c_cause[c] = VP_CAUSE_TERM;
        }
      }
      vp_apply_deaths();
    }
  }
  return 0;
}

int vp_chdir(const char *path)
{
  vp_calls_total++;
  vp_chdir_calls++;
  VP_ASSERT(C12, vp_in_child, "chdir() called in the parent process");
  (void) path;
  if (vp_fault()) {
    return vp_fail(vp_errno_any(false));
  }
  return 0;
}

int vp_execvp(const char *file, char *const argv[])
{
  vp_calls_total++;
  vp_exec_called++;
  VP_TRACE("execvp(\"%s\")", file);
  VP_ASSERT(C04, vp_in_child, "exec called in the parent process");
  VP_ASSERT(C12, vp_in_child, "exec called in the parent process");
  if (vp_fault()) {
    return vp_fail(vp_errno_any(false));
  }
  vp_on_exec(file, argv);
  VP_END();
  return -1;
}

void vp__exit(int status)
{
  vp_calls_total++;
  vp_exit_called++;
  VP_TRACE("_exit(%d), reported=%d", status, vp_child_reported);
  vp_on_exit(status);
  VP_END();
}

#ifndef VP_CWDMAX
#define VP_CWDMAX 12
#endif

char *vp_getcwd(char *buf, size_t size)
{
  vp_calls_total++;
  if (vp_fault()) {
    int e = vp_errno_any(false);
    VP_ASSUME(e != ERANGE); /* ERANGE has its own meaning: buffer too small */
    vp_fail(e);
    return NULL;
  }
  size_t len = 0;
  for (int i = 0; i < VP_CWDMAX; i++) {
    if (vp_cwd[len] != '\0') {
      len++;
    }
  }
  if (len + 1 > size) {
    errno = ERANGE;
    return NULL;
  }
  for (int i = 0; i <= VP_CWDMAX; i++) {
    if ((size_t) i <= len) {
      buf[i] = vp_cwd[i];
    }
  }
  return buf;
}

int vp_getrlimit(int resource, struct rlimit *lim)
{
  vp_calls_total++;
  (void) resource;
  if (vp_fault()) {
    return vp_fail(vp_errno_any(false));
  }
  if (vp_rlim_mode == 0) {
    lim->rlim_cur = VP_NFD;
  } else if (vp_rlim_mode == 1) {
    lim->rlim_cur = (rlim_t) 1 << 30;
  } else {
    lim->rlim_cur = RLIM_INFINITY;
  }
  lim->rlim_max = RLIM_INFINITY;
  return 0;
}

/* ------------------------------------------------------------------ signals */

int vp_sigfillset(void *set)
{
  vp_calls_total++;
  if (vp_fault()) {
    return vp_fail(vp_errno_any(false));
  }
  *(uint64_t *) set = ~(uint64_t) 0;
  return 0;
}

int vp_sigemptyset(void *set)
{
  vp_calls_total++;
  if (vp_fault()) {
    return vp_fail(vp_errno_any(false));
  }
  *(uint64_t *) set = 0;
  return 0;
}

int vp_sigaction(int sig, const struct sigaction *act, struct sigaction *old)
{
  vp_calls_total++;
  vp_sigaction_calls++;
  VP_ASSERT(C12, vp_in_child || act == NULL, "sigaction() changes a disposition in the parent: dispositions are process-wide");
  if (sig <= 0 || sig >= 65 || sig == SIGKILL || sig == SIGSTOP) {
    errno = EINVAL; /* documented answer, not a fault */
    return -1;
  }
  if (vp_fault()) {
    int e = vp_errno_any(false);
    VP_ASSUME(e != EINVAL);
    return vp_fail(e);
  }
  static int vp_handler_obj;
  if (old != NULL && sig < 32) {
    memset(old, 0, sizeof *old);
    old->sa_handler = vp_sig_disp[sig] == 0 ? SIG_DFL
                      : vp_sig_disp[sig] == 1 ? SIG_IGN
                                              : (void (*)(int)) (void *) &vp_handler_obj;
  }
  if (act != NULL && sig < 32) {
    if (act->sa_handler == SIG_DFL) {
      vp_child_dfl |= (uint32_t) 1 << sig;
      vp_sig_disp[sig] = 0;
    } else {
      vp_child_dfl &= ~((uint32_t) 1 << sig);
      vp_sig_disp[sig] = act->sa_handler == SIG_IGN ? 1 : 2;
    }
  }
  return 0;
}

int vp_sigprocmask(int how, const void *set, void *old)
{
  vp_sigprocmask_calls++;
  VP_ASSERT(C12, false, "sigprocmask() used in the multithreaded build (unspecified with threads)");
  VP_ASSERT(C20, false, "sigprocmask() used in the multithreaded build (unspecified with threads)");
  return vp_pthread_sigmask(how, set, old);
}

int vp_pthread_sigmask(int how, const void *set, void *old)
{
  vp_calls_total++;
  VP_TRACE("pthread_sigmask(how=%d, set=%016llx) mask=%016llx", how,
           set ? (unsigned long long) *(const uint64_t *) set : 0ULL, (unsigned long long) vp_sigmask);
  /* C12's own exclusion: the call that restores the caller's mask is not made to fail */
  bool restoring = vp_sigmask0_valid && set != NULL && how == SIG_SETMASK &&
                   *(const uint64_t *) set == vp_sigmask0;
  if (!restoring && vp_fault()) {
    int e = vp_errno_any(false);
    vp_note_err(e);
    return e; /* returns the error, errno untouched */
  }
  uint64_t prev = vp_sigmask;
  if (set != NULL) {
    uint64_t s = *(const uint64_t *) set;
    if (how == SIG_SETMASK) {
      vp_sigmask = s;
    } else if (how == SIG_BLOCK) {
      vp_sigmask |= s;
    } else {
      vp_sigmask &= ~s;
    }
  }
  if (old != NULL) {
    *(uint64_t *) old = prev;
  }
  return 0;
}

/* ------------------------------------------------------------------ clock */

int vp_clock_gettime(int clk, struct timespec *ts)
{
  (void) clk;
  if (vp_clock_drift > 0) {
    vp_T += vp_choice(0, vp_clock_drift);
  }
  ts->tv_sec = (time_t) (vp_T / 1000);
  ts->tv_nsec = (long) (vp_T % 1000) * 1000000L;
  return 0;
}

/* ------------------------------------------------------------------ allocation */

void *vp_malloc(size_t n)
{
  vp_alloc_calls++;
  VP_TRACE("malloc(%zu)", n);
  if (vp_fault()) {
    vp_note_err(ENOMEM);
    errno = ENOMEM;
    VP_TRACE("  -> allocation fails");
    return NULL;
  }
  void *p = malloc(n ? n : 1);
#ifdef VP_CBMC
  __CPROVER_assume(p != NULL);
#endif
  vp_live_allocs++;
  return p;
}

void *vp_calloc(size_t a, size_t b)
{
  vp_alloc_calls++;
  VP_TRACE("calloc(%zu,%zu)", a, b);
  if (vp_fault()) {
    vp_note_err(ENOMEM);
    errno = ENOMEM;
    VP_TRACE("  -> allocation fails");
    return NULL;
  }
  void *p = calloc(a ? a : 1, b ? b : 1);
#ifdef VP_CBMC
  __CPROVER_assume(p != NULL);
#endif
  vp_live_allocs++;
  return p;
}

void *vp_realloc(void *old, size_t n)
{
  vp_alloc_calls++;
  if (vp_fault()) {
    vp_note_err(ENOMEM);
    errno = ENOMEM;
    return NULL; /* the old block stays valid */
  }
  void *p = realloc(old, n ? n : 1);
#ifdef VP_CBMC
  __CPROVER_assume(p != NULL);
#endif
  if (old == NULL) {
    vp_live_allocs++;
  }
  return p;
}

void vp_free(void *p)
{
  if (p != NULL) {
    vp_live_allocs--;
  }
  free(p);
}

#ifndef VP_STRMAX
#define VP_STRMAX 8
#endif

char *vp_strdup(const char *s)
{
  size_t n = 0;
  for (int i = 0; i < VP_STRMAX; i++) {
    if (s[n] != '\0') {
      n++;
    }
  }
  VP_MODEL_ASSERT(s[n] == '\0', "strdup argument longer than VP_STRMAX");
  char *p = (char *) vp_malloc(n + 1);
  if (p == NULL) {
    return NULL;
  }
  for (int i = 0; i <= VP_STRMAX; i++) {
    if ((size_t) i <= n) {
      p[i] = s[i];
    }
  }
  return p;
}

int vp_strerror_r(int e, char *buf, size_t n)
{
  /* XSI strerror_r: 0 and a NUL-terminated message, or an error number */
  VP_ASSERT(C14, e >= 0, "strerror_r called with a negative errno (abs overflow?)");
  if (n == 0) {
    return ERANGE;
  }
  if (vp_bool()) {
    return EINVAL;
  }
  size_t len = (size_t) vp_choice(0, 3);
  if (len + 1 > n) {
    return ERANGE;
  }
  for (size_t i = 0; i < 3; i++) {
    if (i < len) {
      buf[i] = 'e';
    }
  }
  buf[len] = '\0';
  return 0;
}
