/* native.c - replay side of vp.h: vp_choice pops recorded values. */
#include "vp.h"
#include <stdio.h>
#include <stdlib.h>
#include <string.h>

static FILE *vp_replay_file;
static long vp_replay_n;

int vp_choice(int lo, int hi)
{
  if (vp_replay_file == NULL) {
    const char *path = getenv("VP_REPLAY");
    if (path == NULL) {
      fprintf(stderr, "VP_REPLAY not set\n");
      exit(3);
    }
    vp_replay_file = fopen(path, "r");
    if (vp_replay_file == NULL) {
      perror(path);
      exit(3);
    }
  }
  char line[256];
  long v = lo;
  for (;;) {
    if (fgets(line, sizeof line, vp_replay_file) == NULL) {
      printf("VP_REPLAY_EXHAUSTED after %ld choices\n", vp_replay_n);
      v = lo;
      break;
    }
    if (line[0] == '#' || line[0] == '\n') {
      continue;
    }
    v = strtol(line, NULL, 10);
    break;
  }
  vp_replay_n++;
  if (v < lo || v > hi) {
    printf("VP_REPLAY_RANGE choice %ld value %ld not in [%d,%d]\n", vp_replay_n,
           v, lo, hi);
    fflush(stdout);
    exit(44);
  }
  return (int) v;
}

void vp_native_fail(const char *kind, const char *text)
{
  printf("VP_%s_FAIL %s\n", kind, text);
  fflush(stdout);
  exit(strcmp(kind, "ASSERT") == 0 ? 42 : 43);
}

void harness(void);

int vp_trace_on;

int main(void)
{
  /* read before the harness replaces environ */
  vp_trace_on = getenv("VP_TRACE") != NULL;
  harness();
  printf("VP_HARNESS_RETURNED\n");
  return 0;
}
