/* vp_shim.h - forced include (-include) for the harness translation unit, which
 * #includes the real reproc sources. System headers are pulled in first, then
 * the libc entry points reproc uses are redirected to the model with FUNCTION-LIKE
 * macros: identifiers such as `pipe.read` / `pipe.write` / `signal` inside reproc are
 * not followed by '(' and stay untouched.
 */
#ifndef VP_SHIM_H
#define VP_SHIM_H

#define _POSIX_C_SOURCE 200809L

#include <errno.h>
#include <fcntl.h>
#include <limits.h>
#include <poll.h>
#include <signal.h>
#include <stdio.h>
#include <stdlib.h>
#include <string.h>
#include <sys/resource.h>
#include <sys/wait.h>
#include <time.h>
#include <unistd.h>

#include "vp_model.h"

#define pipe(a) vp_pipe(a)
#define close(a) vp_close(a)
#define read(a, b, c) vp_read(a, b, c)
#define write(a, b, c) vp_write(a, b, c)
#define fcntl(...) vp_fcntl(__VA_ARGS__)
#define open(...) vp_open(__VA_ARGS__)
#undef fileno
#define fileno(f) vp_fileno((void *) (f))
#define dup2(a, b) vp_dup2(a, b)
#define fork() vp_fork()
#define waitpid(a, b, c) vp_waitpid(a, b, c)
#define wait(a) vp_waitpid(-1, a, 0) /* reaps ANY child: the model rejects the non-positive pid */
#define kill(a, b) vp_kill(a, b)
#define poll(a, b, c) vp_poll(a, (unsigned long) (b), c)
#define chdir(a) vp_chdir(a)
#define execvp(a, b) vp_execvp(a, b)
#define _exit(a) vp__exit(a)
#define getcwd(a, b) vp_getcwd(a, b)
#define getrlimit(a, b) vp_getrlimit((int) (a), b)
#undef sigfillset
#undef sigemptyset
#define sigfillset(a) vp_sigfillset((void *) (a))
#define sigemptyset(a) vp_sigemptyset((void *) (a))
#define sigaction(a, b, c) vp_sigaction(a, b, c)
#define sigprocmask(a, b, c) vp_sigprocmask(a, (const void *) (b), (void *) (c))
#define pthread_sigmask(a, b, c) vp_pthread_sigmask(a, (const void *) (b), (void *) (c))
#define clock_gettime(a, b) vp_clock_gettime((int) (a), b)
#define malloc(a) vp_malloc(a)
#define calloc(a, b) vp_calloc(a, b)
#define realloc(a, b) vp_realloc(a, b)
#define free(a) vp_free(a)
#define strdup(a) vp_strdup(a)
#define strerror_r(a, b, c) vp_strerror_r(a, b, c)

#endif
