/* libc_extra.c - plain loop versions of <string.h> functions for which this CBMC has no
 * built-in model. Without a body CBMC would give them arbitrary return values and every
 * counterexample through them would fail to replay. Compiled for CBMC only; the native
 * replay uses the C library's own functions. */
#ifdef VP_CBMC
#include <stddef.h>

size_t strcspn(const char *s, const char *reject)
{
  size_t n = 0;
  for (; s[n] != '\0'; n++) {
    for (size_t j = 0; reject[j] != '\0'; j++) {
      if (s[n] == reject[j]) {
        return n;
      }
    }
  }
  return n;
}

size_t strspn(const char *s, const char *accept)
{
  size_t n = 0;
  for (; s[n] != '\0'; n++) {
    int found = 0;
    for (size_t j = 0; accept[j] != '\0'; j++) {
      found = found || s[n] == accept[j];
    }
    if (!found) {
      return n;
    }
  }
  return n;
}

char *strpbrk(const char *s, const char *accept)
{
  size_t n = strcspn(s, accept);
  return s[n] != '\0' ? (char *) s + n : (char *) 0;
}

size_t strnlen(const char *s, size_t max)
{
  size_t n = 0;
  while (n < max && s[n] != '\0') {
    n++;
  }
  return n;
}

void *memrchr(const void *s, int c, size_t n)
{
  const unsigned char *p = (const unsigned char *) s;
  while (n > 0) {
    n--;
    if (p[n] == (unsigned char) c) {
      return (void *) (p + n);
    }
  }
  return (void *) 0;
}

char *stpcpy(char *dst, const char *src)
{
  size_t i = 0;
  do {
    dst[i] = src[i];
  } while (src[i++] != '\0');
  return dst + i - 1;
}
#else
typedef int vp_libc_extra_unused;
#endif
