/* stand-in for <winsock2.h> (H_winredir: error.windows.c only needs one constant) */
#ifndef VP_WINSOCK2_H
#define VP_WINSOCK2_H
#define WSAEWOULDBLOCK 10035
#endif
