/* stand-in for <io.h> (H_winredir) */
#ifndef VP_IO_H
#define VP_IO_H
#include <stdint.h>
#include <stdio.h>
int _fileno(FILE *f);
intptr_t _get_osfhandle(int fd);
#endif
