/* Minimal stand-in for <windows.h>: just enough declarations to compile the leaf
 * kernels of reproc/src/process.windows.c on Linux (argument_*, argv_join, env_join*,
 * env_concat, process_wait). No Win32 behaviour is modelled here; the functions that
 * the verified kernels call are given bodies by the harness. */
#ifndef VP_WINDOWS_H
#define VP_WINDOWS_H

#include <limits.h>
#include <stdbool.h>
#include <stddef.h>
#include <stdint.h>
#include <string.h>
#include <wchar.h>

typedef void *HANDLE;
typedef unsigned int DWORD;
typedef int BOOL;
typedef unsigned short WORD;
typedef size_t SIZE_T;
typedef void *LPVOID;
typedef wchar_t *LPWSTR;
typedef const wchar_t *LPCWSTR;
typedef void *LPPROC_THREAD_ATTRIBUTE_LIST;

#define INVALID_HANDLE_VALUE ((HANDLE) (intptr_t) -1)
#define INFINITE 0xFFFFFFFFu
#define WAIT_FAILED 0xFFFFFFFFu
#define CREATE_NEW_PROCESS_GROUP 0x00000200u
#define CREATE_UNICODE_ENVIRONMENT 0x00000400u
#define EXTENDED_STARTUPINFO_PRESENT 0x00080000u
#define HANDLE_FLAG_INHERIT 1u
#define ERROR_INSUFFICIENT_BUFFER 122
#define ERROR_NOT_ENOUGH_MEMORY 8
#define ERROR_CALL_NOT_IMPLEMENTED 120
#define PROC_THREAD_ATTRIBUTE_HANDLE_LIST 0x00020002u
#define STARTF_USESTDHANDLES 0x100u
#define STARTF_USESHOWWINDOW 0x1u
#define SW_HIDE 0
#define SEM_NOGPFAULTERRORBOX 2u
#define CTRL_BREAK_EVENT 1u

typedef struct {
  DWORD cb;
  DWORD dwFlags;
  WORD wShowWindow;
  HANDLE hStdInput, hStdOutput, hStdError;
} STARTUPINFOW, *LPSTARTUPINFOW;
typedef struct {
  STARTUPINFOW StartupInfo;
  LPPROC_THREAD_ATTRIBUTE_LIST lpAttributeList;
} STARTUPINFOEXW;
typedef struct {
  HANDLE hProcess, hThread;
  DWORD dwProcessId, dwThreadId;
} PROCESS_INFORMATION;
typedef struct {
  DWORD nLength;
  LPVOID lpSecurityDescriptor;
  BOOL bInheritHandle;
} SECURITY_ATTRIBUTES;

void SetLastError(DWORD e);
DWORD GetLastError(void);
BOOL SetHandleInformation(HANDLE h, DWORD mask, DWORD flags);
BOOL InitializeProcThreadAttributeList(LPPROC_THREAD_ATTRIBUTE_LIST l, DWORD n, DWORD f, SIZE_T *size);
BOOL UpdateProcThreadAttribute(LPPROC_THREAD_ATTRIBUTE_LIST l, DWORD f, DWORD attr, void *v, SIZE_T size, void *p, SIZE_T *r);
void DeleteProcThreadAttributeList(LPPROC_THREAD_ATTRIBUTE_LIST l);
wchar_t *GetEnvironmentStringsW(void);
BOOL FreeEnvironmentStringsW(wchar_t *p);
BOOL CreateProcessW(LPCWSTR app, LPWSTR cmd, SECURITY_ATTRIBUTES *pa, SECURITY_ATTRIBUTES *ta, BOOL inherit,
                    DWORD flags, LPVOID env, LPCWSTR cwd, LPSTARTUPINFOW si, PROCESS_INFORMATION *pi);
DWORD SetErrorMode(DWORD m);
DWORD GetProcessId(HANDLE h);
DWORD WaitForSingleObject(HANDLE h, DWORD ms);
BOOL GetExitCodeProcess(HANDLE h, DWORD *code);
BOOL GenerateConsoleCtrlEvent(DWORD ev, DWORD group);
BOOL TerminateProcess(HANDLE h, DWORD code);

/* ---- additions for redirect.windows.c / handle.windows.c / error.windows.c (H_winredir) ---- */
#define STD_INPUT_HANDLE ((DWORD) -10)
#define STD_OUTPUT_HANDLE ((DWORD) -11)
#define STD_ERROR_HANDLE ((DWORD) -12)
#define GENERIC_READ 0x80000000u
#define GENERIC_WRITE 0x40000000u
#define FILE_SHARE_READ 1u
#define FILE_SHARE_WRITE 2u
#define CREATE_NEW 1u
#define CREATE_ALWAYS 2u
#define OPEN_EXISTING 3u
#define OPEN_ALWAYS 4u
#define TRUNCATE_EXISTING 5u
#define FILE_SHARE_DELETE 4u
#define ERROR_FILE_NOT_FOUND 2
#define ERROR_PATH_NOT_FOUND 3
#define ERROR_ACCESS_DENIED 5
#define DUPLICATE_SAME_ACCESS 2u
#define FILE_APPEND_DATA 4u
#define FILE_ATTRIBUTE_NORMAL 0x80u
#define ERROR_INVALID_HANDLE 6
#define ERROR_INVALID_PARAMETER 87
#define ERROR_BROKEN_PIPE 109
#define WAIT_TIMEOUT 258
#define FORMAT_MESSAGE_FROM_SYSTEM 0x1000u
#define FORMAT_MESSAGE_IGNORE_INSERTS 0x200u
#define MAKELANGID(p, s) ((((WORD) (s)) << 10) | (WORD) (p))
#define LANG_NEUTRAL 0
#define SUBLANG_DEFAULT 1
#define CP_UTF8 65001u
#define __declspec(x) __thread
HANDLE GetStdHandle(DWORD id);
HANDLE CreateFileW(LPCWSTR path, DWORD access, DWORD share, SECURITY_ATTRIBUTES *sa, DWORD disposition, DWORD attributes,
                   HANDLE templ);
BOOL CloseHandle(HANDLE h);
#define MB_ERR_INVALID_CHARS 8u
int MultiByteToWideChar(unsigned cp, DWORD flags, const char *s, int size, wchar_t *out, int n);
DWORD FormatMessageW(DWORD flags, const void *src, DWORD id, DWORD lang, wchar_t *buf, DWORD size, void *args);
int WideCharToMultiByte(unsigned cp, DWORD flags, const wchar_t *w, int nw, char *s, int ns, const char *d, BOOL *used);

#endif
