"""Which harnesses decide which property, with their bounds per tier."""
from .runner import Job

META = {}
_JOBS = {}


def prop(pid, units, assumptions, outside):
    META[pid] = {"units": units, "assumptions": assumptions, "outside": outside}
    _JOBS[pid] = []


def add(pid, fn):
    _JOBS[pid].append(fn)


def jobs_for(pid, tier):
    out = []
    for fn in _JOBS[pid]:
        out += fn(tier)
    return out


def known_jobs_for(pid, tier, known):
    return []


COMMON_ASSUME = [
    "cbmc 6.11.0 decides every obligation by bit-precise SAT over the goto program built "
    "by goto-cc from /repo's current working tree with the release flags (-std=c99 -DNDEBUG "
    "-DREPROC_MULTITHREADED); reproc's own ASSERT()s are compiled out as in the shipped build",
    "loop bounds are enforced by --unwinding-assertions: a too small bound fails the check as "
    "inconclusive instead of truncating paths",
]

# ------------------------------------------------------------------ C13
prop("C13",
     units=["reproc/src/options.c", "reproc/src/error.posix.c", "reproc/src/reproc.c (reproc_start)"],
     assumptions=COMMON_ASSUME + [
         "H_options: pointers are NULL or point to distinct dummy objects; 'handle set' means "
         "non-zero as in reproc.h; redirect types restricted to the 8 enumerators (out-of-range "
         "values are handled by H_noeffect)",
         "the oracle is a transcription of the comments in reproc.h (reproc_redirect, "
         "reproc_options.redirect/input/fork/deadline/stop); parent+discard together is required to "
         "be rejected only when some stream is left for them to decide ('compete')",
     ],
     outside=["Windows (fork option rejected there)", "semantic validity of handle numbers, FILE "
              "objects and paths (that is C04/C10)"])
add("C13", lambda tier: [Job("h_options", model=False, shim=False, unwind=4,
                             bounds={"ints": "full 32-bit", "streams": 3})])

# ------------------------------------------------------------------ start harness (shared)


def start_jobs(tier, side, F=None):
    jobs = []
    F = (1 if tier == "quick" else 2) if F is None else F
    for it in (1, 2, 3, 5, 6, 7):
        jobs.append(Job("h_start", variant="side%d-in%d-F%d" % (side, it, F),
                        defines={"VP_SIDE": side, "VP_IN_TYPE": it, "VP_F": F, "VP_EINTR": 1,
                                 "VP_MAXEV": 1, "VP_EXTRA": 1},
                        unwind=20, params={"nfd": 18, "retry": F + 2, "input_max": 3},
                        cbmc_flags=["--slice-formula"], timeout=1800,
                        bounds={"faults": F, "descriptor_table": 18, "stdin_type": it}))
    return jobs


prop("C04", units=["reproc/src/reproc.c", "reproc/src/process.posix.c", "reproc/src/redirect.c",
                   "reproc/src/redirect.posix.c", "reproc/src/pipe.posix.c", "reproc/src/handle.posix.c",
                   "reproc/src/options.c", "reproc/src/strv.c"],
     assumptions=COMMON_ASSUME, outside=[])
add("C04", lambda tier: start_jobs(tier, 0) + start_jobs(tier, 1))

START_UNITS = ["reproc/src/reproc.c (reproc_new, reproc_start, setup_input)", "reproc/src/process.posix.c",
               "reproc/src/redirect.c", "reproc/src/redirect.posix.c", "reproc/src/pipe.posix.c",
               "reproc/src/handle.posix.c", "reproc/src/options.c", "reproc/src/strv.c",
               "reproc/src/init.posix.c"]
START_ASSUME = COMMON_ASSUME + [
    "POSIX model /verif/model/posix_model.c (contracts listed at the top of that file): lowest-free "
    "descriptor allocation, dup2/FD_CLOEXEC/O_NONBLOCK semantics, close releases even on error, "
    "fcntl(F_GETFD) on an open descriptor cannot fail, read on a pipe and waitpid fail only with EINTR",
    "fork is explored one side at a time: the parent side ASSUMES the child's contract G (reports a "
    "positive errno on its error pipe and exits, or execs holding exactly its four descriptors); the "
    "child side PROVES G on the same tree in the same run (DESIGN.md 2.3)",
    "at most F injected faults per path (quick F=1, thorough F=2), any errno 1..133; EINTR injectable "
    "at read/waitpid/open/dup2/close/poll/write",
    "descriptor table scaled to 18 slots = soft RLIMIT_NOFILE; MAX_FD_LIMIT (2^20) is exercised through "
    "a symbolic limit in {18, 2^30, RLIM_INFINITY}",
    "now() is replaced by a read of the virtual clock (clock.posix.c itself is decided by H_clock)",
    "only option records that parse_options accepts (C13 decides acceptance); strings are short constants; "
    "caller's descriptors in two layouts (below / above the library's), 1 unrelated descriptor at the "
    "highest permitted number",
]
START_OUTSIDE = ["kernel behaviour (it is the model)", "more than 2 faults per path", "descriptors >= 18",
                 "SIGKILL of the child between fork and exec", "real thread schedules"]

for _pid in ("C05", "C06", "C10", "C11", "C12"):
    prop(_pid, units=START_UNITS, assumptions=START_ASSUME, outside=START_OUTSIDE)
META["C04"]["units"] = START_UNITS
META["C04"]["assumptions"] = START_ASSUME
META["C04"]["outside"] = START_OUTSIDE
add("C05", lambda tier: start_jobs(tier, 0))
add("C06", lambda tier: start_jobs(tier, 0))
add("C10", lambda tier: start_jobs(tier, 0) + start_jobs(tier, 1))
add("C11", lambda tier: start_jobs(tier, 1))
add("C12", lambda tier: start_jobs(tier, 0) + start_jobs(tier, 1))
