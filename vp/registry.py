"""Which harnesses decide which property, with their bounds per tier."""
import os

from .runner import Job, VERIF

META = {}
_JOBS = {}


def prop(pid, units, assumptions, outside):
    META[pid] = {"units": units, "assumptions": assumptions, "outside": outside}
    _JOBS[pid] = []


def add(pid, fn):
    _JOBS[pid].append(fn)


def jobs_for(pid, tier):
    out = []
    for fn in _JOBS[pid]:
        out += fn(tier)
    return out


def known_jobs_for(pid, tier, known):
    """For every OPEN known finding of this property: a job restricted TO the finding's region. It
    must still show the violation (then the KNOWN-FINDING line is printed); the ordinary jobs run with
    the region excluded and must hold."""
    out = []
    for k in known:
        if k.get("property") != pid or k.get("status") != "open":
            continue
        d = {"VP_MAXEV": 1, "VP_EXTRA": 0, "VP_EINTR": 0, "VP_KF_REGION": 1}
        d.update(k.get("defines", {}))
        out.append((Job(k["harness"], variant="known-" + k["key"], defines=d, unwind=20,
                        params={"nfd": 18, "retry": 2, "input_max": 3}, cbmc_flags=["--slice-formula"],
                        timeout=1200, solvers=("minisat", "cadical"),
                        bounds={"region": k.get("region")}), k))
    return out


COMMON_ASSUME = [
    "cbmc 6.11.0 decides every obligation by bit-precise SAT over the goto program built "
    "by goto-cc from /repo's current working tree with the release flags (-std=c99 -DNDEBUG "
    "-DREPROC_MULTITHREADED); reproc's own ASSERT()s are compiled out as in the shipped build",
    "loop bounds are enforced by --unwinding-assertions: a too small bound fails the check as "
    "inconclusive instead of truncating paths",
]

# ------------------------------------------------------------------ C13
prop("C13",
     units=["reproc/src/options.c", "reproc/src/error.posix.c", "reproc/src/reproc.c (reproc_start)"],
     assumptions=COMMON_ASSUME + [
         "H_options: pointers are NULL or point to distinct dummy objects; 'handle set' means "
         "non-zero as in reproc.h; redirect types restricted to the 8 enumerators (out-of-range "
         "values are handled by H_noeffect)",
         "the oracle is a transcription of the comments in reproc.h (reproc_redirect, "
         "reproc_options.redirect/input/fork/deadline/stop); parent+discard together is required to "
         "be rejected only when some stream is left for them to decide ('compete')",
     ],
     outside=["Windows (fork option rejected there)", "semantic validity of handle numbers, FILE "
              "objects and paths (that is C04/C10)"])
add("C13", lambda tier: [Job("h_options", model=False, shim=False, unwind=4, solvers=("minisat",),
                             bounds={"ints": "full 32-bit", "streams": 3}),
                         Job("h_noeffect", defines={"VP_MAXEV": 1, "VP_NFD": 18, "VP_NOFD": 18}, unwind=20,
                             params={"nfd": 18, "retry": 2, "input_max": 2}, cbmc_flags=["--slice-formula"],
                             timeout=1200, solvers=("cadical", "minisat"),
                             bounds={"redirect_types": "-2..9", "handles": "0..5"})])

# ------------------------------------------------------------------ start harness (shared)


def start_jobs(tier, side, F=None, types=(1, 2, 3, 5, 6, 7)):
    jobs = []
    F = (1 if tier == "quick" else 3) if F is None else F
    deep = tier == "thorough"
    for it in types:
        jobs.append(Job("h_start", variant="side%d-in%d-F%d%s" % (side, it, F, "-deep" if deep else ""),
                        defines={"VP_SIDE": side, "VP_IN_TYPE": it, "VP_F": F, "VP_EINTR": 1,
                                 "VP_MAXEV": 1, "VP_EXTRA": 5 if deep else 1, "VP_USERFD_SYM": 1 if deep else 0,
                                 "VP_NFD": 22 if deep else 18, "VP_NOFD": 28 if deep else 18},
                        unwind=30 if deep else 20, params={"nfd": 22 if deep else 18, "retry": F + 2, "input_max": 3},
                        cbmc_flags=["--slice-formula"], timeout=1200 if not deep else 3600,
                        solvers=("minisat",) if not deep else ("minisat", "cadical"),
                        bounds={"faults": F, "descriptor_table": 22 if deep else 18, "stdin_type": it,
                                "unrelated_descriptors": 5 if deep else 1,
                                "caller_descriptors": "any two positions 3..17" if deep else "two layouts (3,4 / 15,16)"}))
    return jobs


def lowfd_jobs(tier, side=1, forkmode=0, F=0, types=(1, 2, 3, 5, 6, 7)):
    """start with the parent's descriptors 0/1/2 open or closed in every combination, and HANDLE
    redirects that may name descriptor 1 or 2 (the region of former finding D10)"""
    jobs = []
    for it in types:
        jobs.append(Job("h_start", variant="lowfd-side%d-in%d-F%d-%s" % (side, it, F, "fork" if forkmode else "exec"),
                        defines={"VP_SIDE": side, "VP_IN_TYPE": it, "VP_F": F, "VP_EINTR": 0, "VP_LOWFD": 1,
                                 "VP_FORKMODE": forkmode, "VP_MAXEV": 1, "VP_EXTRA": 0, "VP_NFD": 18, "VP_NOFD": 18},
                        unwind=20, params={"nfd": 18, "retry": F + 2, "input_max": 3},
                        cbmc_flags=["--slice-formula"], timeout=1200, solvers=("minisat", "cadical"),
                        bounds={"faults": F, "descriptor_table": 18, "stdin_type": it,
                                "parent_descriptors_0_1_2": "each open or closed", "mode": "fork" if forkmode else "exec"}))
    return jobs


LOWFD_PROPS = ()  # becomes ("C10", "C11") once finding D10 is repaired: the region then is an ordinary job

prop("C04", units=["reproc/src/reproc.c", "reproc/src/process.posix.c", "reproc/src/redirect.c",
                   "reproc/src/redirect.posix.c", "reproc/src/pipe.posix.c", "reproc/src/handle.posix.c",
                   "reproc/src/options.c", "reproc/src/strv.c"],
     assumptions=COMMON_ASSUME, outside=[])
add("C04", lambda tier: start_jobs(tier, 0) + start_jobs(tier, 1))

START_UNITS = ["reproc/src/reproc.c (reproc_new, reproc_start, setup_input)", "reproc/src/process.posix.c",
               "reproc/src/redirect.c", "reproc/src/redirect.posix.c", "reproc/src/pipe.posix.c",
               "reproc/src/handle.posix.c", "reproc/src/options.c", "reproc/src/strv.c",
               "reproc/src/init.posix.c"]
START_ASSUME = COMMON_ASSUME + [
    "POSIX model /verif/model/posix_model.c (contracts listed at the top of that file): lowest-free "
    "descriptor allocation, dup2/FD_CLOEXEC/O_NONBLOCK semantics, close releases even on error, "
    "fcntl(F_GETFD) on an open descriptor cannot fail, read on a pipe and waitpid fail only with EINTR",
    "fork is explored one side at a time: the parent side ASSUMES the child's contract G (reports a "
    "positive errno on its error pipe and exits, or execs holding exactly its four descriptors); the "
    "child side PROVES G on the same tree in the same run (DESIGN.md 2.3)",
    "at most F injected faults per path (quick F=1, thorough F=3), any errno 1..133; EINTR injectable "
    "at read/waitpid/open/dup2/close/poll/write",
    "descriptor table scaled to 18 slots = soft RLIMIT_NOFILE; MAX_FD_LIMIT (2^20) is exercised through "
    "a symbolic limit in {18, 2^30, RLIM_INFINITY}",
    "now() is replaced by a read of the virtual clock (clock.posix.c itself is decided by H_clock)",
    "only option records that parse_options accepts (C13 decides acceptance); strings are short constants; "
    "caller's descriptors in two layouts (below / above the library's), 1 unrelated descriptor at the "
    "highest permitted number",
]
START_OUTSIDE = ["kernel behaviour (it is the model)", "more than F faults per path (F = 1 quick, 3 thorough)", "descriptors >= 18 (22 thorough)",
                 "SIGKILL of the child between fork and exec", "real thread schedules"]

for _pid in ("C05", "C06", "C10", "C11", "C12"):
    prop(_pid, units=START_UNITS, assumptions=START_ASSUME, outside=START_OUTSIDE)
META["C04"]["units"] = START_UNITS
META["C04"]["assumptions"] = START_ASSUME
META["C04"]["outside"] = START_OUTSIDE
add("C05", lambda tier: start_jobs(tier, 0))
add("C06", lambda tier: start_jobs(tier, 0))
add("C10", lambda tier: start_jobs(tier, 0) + start_jobs(tier, 1))
add("C11", lambda tier: start_jobs(tier, 1))
add("C12", lambda tier: start_jobs(tier, 0) + start_jobs(tier, 1))

# ------------------------------------------------------------------ stop / destroy / wait
STOP_ASSUME = COMMON_ASSUME + [
    "POSIX model (see C04) with one child whose behaviour is symbolic: natural exit time (or never) "
    "and wait status (any exit code 0..255, any signal 1..127 with or without core flag), reaction to "
    "SIGTERM (dies / ignores / exits with any code) after any delay < 2^30 ms, SIGKILL fatal after any "
    "delay < 2^30 ms; time passes only inside poll/waitpid and by symbolic amounts between calls",
    "exact virtual clock (no drift): elapsed times are compared for equality with the reference",
    "the handle is produced by the real reproc_start with default redirects and no injected fault",
    "ties (child exits exactly when a timeout ends) are resolved as 'exit seen', in the model and in "
    "the reference alike",
    "timeouts range over {REPROC_DEADLINE, REPROC_INFINITE, 0, any value <= 2^30}; deadline over {none, any value <= 2^30}",
]
STOP_OUTSIDE = ["real-time accuracy of poll", "fork-mode children", "negative timeouts other than -1/-2",
                "failing kill()/waitpid() during stop (covered for C06/C05 by H_history)"]


def stop_job(mode, tier, F=0):
    name = {0: "stop", 1: "destroy", 2: "wait", 3: "wait-fault-wait"}[mode] + ("-F%d" % F if F else "")
    return Job("h_stop", variant=name, defines={"VP_MODE": mode, "VP_MAXEV": 1, "VP_NFD": 14,
                                               "VP_NOFD": 14, "VP_F": F},
               unwind=16, params={"nfd": 14, "retry": 2, "input_max": 0},
               cbmc_flags=["--slice-formula"], timeout=900, solvers=("cadical", "kissat"),
               bounds={"calls_after_start": "optional wait + 1", "children": 1})


prop("C07", units=["reproc/src/reproc.c (reproc_stop, reproc_wait, reproc_terminate, reproc_kill, expiry)",
                   "reproc/src/options.c (parse_stop_actions)", "reproc/src/process.posix.c (process_wait, "
                   "process_terminate, process_kill)", "reproc/src/pipe.posix.c (pipe_poll)"],
     assumptions=STOP_ASSUME, outside=STOP_OUTSIDE)
add("C07", lambda tier: [stop_job(0, tier)])
prop("C15", units=["reproc/src/reproc.c (reproc_destroy, reproc_stop, reproc_wait)"] + START_UNITS,
     assumptions=STOP_ASSUME, outside=STOP_OUTSIDE)
add("C15", lambda tier: [stop_job(1, tier)])

# ------------------------------------------------------------------ call histories


API = ["pid", "wait", "terminate", "kill", "stop", "read", "write", "close", "poll", "strerror"]


def history_jobs(tier, F=0, which=range(10)):
    """quick: the first call after the canonical prefix is fixed per job (10 jobs), the second is any of
    the cheap calls; thorough: two fully symbolic calls + one cheap call in a single job as well"""
    # (a single job with two fully symbolic calls did not finish in 25 minutes: thorough deepens the
    # per-call jobs with one extra call from the cheap subset and a fault budget instead)
    return [history_job(tier, F, w) for w in which]


def history_job(tier, F=0, which=None, K=1):
    K2 = 0 if tier == "quick" else 1
    d = {"VP_K": K, "VP_K2": K2, "VP_F": F, "VP_MAXEV": 1, "VP_NFD": 14, "VP_NOFD": 14}
    if which is not None:
        d["VP_WHICH"] = which
    return Job("h_history", variant="%s-K%d-F%d" % (API[which] if which is not None else "any", K, F),
               defines=d,
               unwind=16, params={"nfd": 14, "retry": 3, "input_max": 0},
               cbmc_flags=["--slice-formula"], timeout=1500, solvers=("cadical", "kissat"),
               bounds={"calls_after_prefix": "%d + %d cheap" % (K, K2), "faults_after_start": F, "children": 1})


HIST_ASSUME = STOP_ASSUME[:2] + [
    "H_history: start valid or rejected; for a started handle a canonical prefix (any subset of streams closed, "
    "time passing, optional terminate/kill, optional wait(0)) reaches every abstract state, then K symbolic "
    "calls over {pid, wait, terminate, kill, stop, read, write, close, poll, strerror} with symbolic arguments "
    "(NULL handle, NULL / size-0 buffers, invalid streams, zero sources) plus one call from the cheap subset, an "
    "optional second start, then destroy; for a never started handle one symbolic call then destroy; blocking "
    "forever is permitted here (timing is decided by H_stop/H_wait/H_poll); the child performs no I/O",
]
prop("C14", units=["reproc/src/reproc.c (all entry points)", "reproc/src/error.posix.c"] + START_UNITS[1:],
     assumptions=HIST_ASSUME, outside=["sequences longer than K calls after start", "Windows", "fork-mode children"])
add("C14", lambda tier: history_jobs(tier, 0) + [unit_job(4, "errstr")] +
    (history_jobs(tier, 1) if tier == "thorough" else []))

# ------------------------------------------------------------------ leaf units


def unit_job(n, name, defines=None, unwind=10, **kw):
    d = {"VP_UNIT": n, "VP_MAXEV": 1, "VP_NFD": 8, "VP_NOFD": 8}
    d.update(defines or {})
    return Job("h_units", variant=name, defines=d, unwind=unwind, timeout=600,
               solvers=("cadical",), params={"str_max": 6}, **kw)


def win_job(unit, name, narg=2, L=2, timeout=900):
    jmax = narg * (2 * L + 3) + 2
    elems = max(16, (jmax + 8 + 3) // 4 + 1, 2 * 2 * (L + 1) + 4)
    return Job("h_win", variant=name, model=False, shim=False,
               defines={"VP_WUNIT": unit, "VP_NARG": narg, "VP_L": L, "_WIN32": 1, "_WIN64": 1,
                        "ARENA_ELEMS": elems},
               cflags=["-I" + os.path.join(VERIF, "model", "win")],
               unwind=4 * elems + 2, timeout=timeout, solvers=("cadical", "kissat"),
               params={"str_max": L + 1},
               loop_rules=[(r"^argument_", L + 2), (r"^argv_join ", narg + 2), (r"^env_", 4),
                           (r"^vp_wcs", L + 3)],
               bounds={"arguments": narg, "bytes_per_argument": L, "alphabet": "all 255 non-NUL byte values"})

prop("C18", units=["reproc/src/process.windows.c (argument_should_escape, argument_escaped_size, "
                   "argument_escape, argv_join, env_join_size, env_join, env_concat)"],
     assumptions=COMMON_ASSUME + [
         "process.windows.c is compiled on Linux with -D_WIN32 -D_WIN64 against the stand-in "
         "/verif/model/win/windows.h; wchar_t is Linux's 32-bit type",
         "heap buffers are served from a fixed arena whose tail carries a symbolic canary "
         "(one arena per element type); calloc never fails in these harnesses",
         "the splitter is an independent one-pass implementation of the documented post-2008 CRT / "
         "CommandLineToArgvW rules applied to every argument including argv[0]",
         "wcslen/wcscpy/wcschr are 6-line loop versions supplied by the harness",
     ],
     outside=["MultiByteToWideChar / CreateProcessW / GetEnvironmentStringsW (Win32 itself)",
              "arguments longer than the stated bound", "the special parsing rule for the program name "
              "(argv[0]) when it contains quotes"])
add("C18", lambda tier: [win_job(1, "argv-2x2", 2, 2), win_job(2, "env", 2, 2)] +
    ([win_job(1, "argv-1x4", 1, 4, timeout=3000), win_job(1, "argv-3x2", 3, 2, timeout=3000),
      win_job(1, "argv-2x3", 2, 3, timeout=3000)] if tier == "thorough" else [win_job(1, "argv-1x3", 1, 3)]))

# ------------------------------------------------------------------ stream contents


def io_job(tier, errmode, F=None):
    R, S = (3, 3) if tier == "quick" else (4, 3)  # 4 x 4 did not finish in 40 min for one stderr mode
    d = {"VP_R": R, "VP_S": S, "VP_ERRMODE": errmode, "VP_IO": 1, "VP_MAXEV": S + 1,
         "VP_NFD": 16, "VP_NOFD": 16, "VP_LOG": 6}
    if F is not None:
        d["VP_F"] = F
    return Job("h_io", variant="err%d-R%d-S%d%s" % (errmode, R, S, "-F%d" % F if F is not None else ""),
               defines=d,
               unwind=18, params={"nfd": 16, "retry": 2, "input_max": 0},
               cbmc_flags=["--slice-formula"], timeout=3600, solvers=("cadical", "kissat"),
               bounds={"parent_calls": R, "child_io_actions": S, "pipe_capacity_bytes": 2,
                       "buffer_sizes": "0..3", "stderr": ["parent", "own pipe", "stdout"][errmode]})

IO_ASSUME = COMMON_ASSUME + [
    "POSIX model with VP_IO: pipes are FIFOs of 2 bytes (stand-in for 64 KiB; PIPE_BUF scaled to 1); the "
    "child performs at most S actions from {write one byte to stdout/stderr, close stdout/stderr/stdin, "
    "read one byte from stdin}, each at a solver-chosen moment (between or during the parent's calls), and "
    "may exit at any time; bytes are symbolic",
    "SIGPIPE is ignored in the parent (write to a pipe without reader returns EPIPE)",
    "the handle comes from the real reproc_start (stdin/stdout pipes, stderr parent / own pipe / stdout)",
]
prop("C02", units=["reproc/src/reproc.c (reproc_read, reproc_write, reproc_close, setup_input)",
                   "reproc/src/pipe.posix.c (pipe_read, pipe_write)"] + START_UNITS,
     assumptions=IO_ASSUME, outside=["payloads beyond the byte logs (6 bytes per direction)", "kernel pipe "
                                     "semantics (they are the model)", "the Windows socket-shutdown path"])
add("C02", lambda tier: [io_job(tier, 0), io_job(tier, 1), io_job(tier, 2)])


def _scale_cwd(workdir):
    """scratch copy of process.posix.c with CWD_BUF_SIZE_INCREMENT 4096 -> 4 (must match once)"""
    from .runner import SRC, Inconclusive
    d = os.path.join(workdir, "repo_scaled")
    os.makedirs(d, exist_ok=True)
    src = open(os.path.join(SRC, "process.posix.c")).read()
    old = "#define CWD_BUF_SIZE_INCREMENT 4096"
    if src.count(old) != 1:
        raise Inconclusive("cannot scale CWD_BUF_SIZE_INCREMENT: definition not found exactly once")
    open(os.path.join(d, "process.posix.c"), "w").write(src.replace(old, "#define CWD_BUF_SIZE_INCREMENT 4"))
    return ["-I" + d]


def cwd_job(tier):
    return Job("h_cwd", variant="inc4", defines={"VP_NFD": 8, "VP_NOFD": 8, "VP_CWDMAX": 12},
               unwind=34, prepare=_scale_cwd, timeout=900, solvers=("cadical", "kissat"),
               params={"str_max": 12, "cwd_growths": 3},
               bounds={"cwd_bytes": 10, "path_bytes": 3, "CWD_BUF_SIZE_INCREMENT": "4 (scaled from 4096)",
                       "faults": 2})


prop("C03", units=["reproc/src/process.posix.c (path_is_relative, path_prepend_cwd, process_start: program, "
                   "environment, chdir, exec)", "reproc/src/strv.c"],
     assumptions=START_ASSUME + [
         "H_cwd: CWD_BUF_SIZE_INCREMENT is 4 instead of 4096 in a scratch copy of process.posix.c (one line, "
         "checked to match exactly once); getcwd returns any string of 1..10 bytes starting with '/'; "
         "calloc/realloc/getcwd may fail (2 faults); heap blocks in a canary-guarded arena",
         "H_strv: vectors of <= 2 strings of <= 2 arbitrary non-NUL bytes, NULL vectors, one allocation fault",
         "child side of H_start: argv pointer identity, program string, environ contents and chdir at exec",
     ],
     outside=["execvp's PATH search and what the kernel hands to the new image", "Windows (CreateProcessW)",
              "working directories longer than 10 bytes (beyond: only the unscaled code's arithmetic, same shape)"])
add("C03", lambda tier: [cwd_job(tier), unit_job(5, "strv", {"VP_L": 2})] +
    start_jobs(tier, 1, types=(1, 5) if tier == "quick" else (1, 2, 3, 5, 6, 7)))

# ------------------------------------------------------------------ poll


def poll_job(tier):
    n = 2 if tier == "quick" else 3
    return Job("h_poll", variant="N%d" % n,
               defines={"VP_N": n, "VP_NCHILD": n, "VP_NPIPE": 4 * n, "VP_NFD": 3 + 4 * n + 1,
                        "VP_NOFD": 3 + 8 * n + 1, "VP_MAXEV": n},
               unwind=3 + 8 * n + 3, params={"n_sources": n},
               cbmc_flags=["--slice-formula"], timeout=2400, solvers=("cadical", "kissat"),
               bounds={"sources": n, "pending_bytes": "0..2 per stream"})


POLL_ASSUME = COMMON_ASSUME + [
    "H_poll: handles are constructed directly in an arbitrary state satisfying the representation "
    "invariant (every pipe field is -1 or an open library descriptor of the right end; the exit pipe is "
    "present unless the status is known) instead of being produced by reproc_start; per stream: no pipe / "
    "open with the child's end open or closed and 0..2 bytes pending; child running (exits at any time or "
    "never), dead-unreaped or reaped; deadline none / future / expired; the child performs no I/O during "
    "the call (only its exit changes readiness)",
    "exact virtual clock; a tie between timeout and deadline may go either way",
]
prop("C09", units=["reproc/src/reproc.c (reproc_poll, find_earliest_deadline, expiry, contains_valid_pipe)",
                   "reproc/src/pipe.posix.c (pipe_poll)"],
     assumptions=POLL_ASSUME, outside=["output produced by the child during the wait (H_io covers read after data)",
                                       "more sources than the stated bound", "the Windows socket-shutdown path "
                                       "(proved unreachable on POSIX by the recursion unwinding assertion)"])
add("C09", lambda tier: [poll_job(tier)])


prop("C08", units=["reproc/src/reproc.c (reproc_poll, reproc_wait, expiry, find_earliest_deadline, reproc_start: "
                   "deadline)", "reproc/src/clock.posix.c (now)", "reproc/src/pipe.posix.c (pipe_poll)"],
     assumptions=POLL_ASSUME + STOP_ASSUME[2:], outside=["real-time accuracy of poll(2)", "a clock that steps backwards",
                                                        "output produced during the wait"])
add("C08", lambda tier: [unit_job(2, "expiry", {"VP_N": 3 if tier == "quick" else 4}), unit_job(3, "clock"),
                         stop_job(2, tier), poll_job(tier)] + start_jobs(tier, 0, F=0, types=(1,)))
prop("C01", units=["reproc/src/process.posix.c (parse_status, process_wait)", "reproc/src/process.windows.c "
                   "(process_wait)", "reproc/src/reproc.c (reproc_wait, reproc_stop, reproc_terminate, reproc_kill, "
                   "reproc_destroy)"],
     assumptions=STOP_ASSUME + HIST_ASSUME[-1:], outside=STOP_OUTSIDE + ["that the kernel reports the right status",
                                                                        "grandchildren holding the exit pipe"])
add("C01", lambda tier: [unit_job(1, "parse_status"), win_job(3, "process_wait"), stop_job(0, tier), stop_job(2, tier)] +
    history_jobs(tier, 0, which=(1, 2, 3, 4)))
add("C05", lambda tier: [stop_job(1, tier)] + history_jobs(tier, 0, which=(5, 6, 7)) + [history_job(tier, 1, 7)])
add("C06", lambda tier: [stop_job(0, tier)] + history_jobs(tier, 0, which=(2, 3, 4)))
add("C15", lambda tier: history_jobs(tier, 0, which=(0,)))


# ------------------------------------------------------------------ reproc++ (IR route)
CXX_FLAGS = ["-std=c++11", "-O1", "-fno-exceptions", "-fno-vectorize", "-fno-slp-vectorize",
             "-fno-unroll-loops"]


def _cxx_prepare(workdir):
    """wrap.cpp (+ the repository's reproc.cpp and headers) -> LLVM IR -> C, on every run"""
    from .runner import REPO, Inconclusive, sh
    d = os.path.join(workdir, "cxx_gen")
    os.makedirs(d, exist_ok=True)
    ll = os.path.join(d, "wrap.ll")
    inc = ["-I" + os.path.join(REPO, "reproc++", "include"), "-I" + os.path.join(REPO, "reproc++", "src"),
           "-I" + os.path.join(REPO, "reproc", "include")]
    rc, so, se, _ = sh(["clang++-14"] + CXX_FLAGS + inc + ["-S", "-emit-llvm", os.path.join(VERIF, "cxx", "wrap.cpp"),
                                                          "-o", ll], timeout=300)
    if rc != 0:
        raise Inconclusive("clang++ failed on the reproc++ wrapper TU:\n" + se[-3000:])
    rc, so, se, _ = sh(["python3", os.path.join(VERIF, "cxx", "ll2c.py"), ll, os.path.join(d, "wrap_gen.c")], timeout=300)
    if rc != 0:
        raise Inconclusive("IR->C translation failed (untranslatable IR is inconclusive, not a verdict):\n" + se[-3000:])
    # translation validation of the encoder: the generated C (gcc) and the real wrapper TU (g++)
    # must print identical observations on the same pseudo-random and boundary vectors
    marker = os.path.join(d, "validated")
    if not os.path.exists(marker):
        seed = os.environ.get("VERIF_SEED", "0") or "0"
        cinc = ["-I" + d, "-I" + os.path.join(VERIF, "cxx"), "-I" + os.path.join(REPO, "reproc", "include")]
        rc, so, se, _ = sh(["gcc", "-std=gnu99", "-w", "-O0"] + cinc + [os.path.join(VERIF, "cxx", "driver_gen.c"),
                                                                     "-o", os.path.join(d, "drv_gen")], timeout=300)
        if rc != 0:
            raise Inconclusive("differential driver (generated C) does not build:\n" + se[-2000:])
        rc, so, se, _ = sh(["g++", "-std=c++11", "-w", "-O1", "-fno-exceptions", "-I" + os.path.join(VERIF, "cxx")] + inc +
                           [os.path.join(VERIF, "cxx", "driver_real.cpp"), "-o", os.path.join(d, "drv_real")], timeout=300)
        if rc != 0:
            raise Inconclusive("differential driver (g++ build of the real code) does not build:\n" + se[-2000:])
        _, og, _, _ = sh([os.path.join(d, "drv_gen"), str(int(seed) + 1), "420"], timeout=120)
        _, orr, _, _ = sh([os.path.join(d, "drv_real"), str(int(seed) + 1), "420"], timeout=120)
        if og != orr or not og:
            lg, lr = og.splitlines(), orr.splitlines()
            first = next((i for i in range(min(len(lg), len(lr))) if lg[i] != lr[i]), -1)
            raise Inconclusive("IR->C translator disagrees with the g++ build of the real code at vector %d:\n gen : %s\n real: %s"
                               % (first, lg[first][:400] if first >= 0 else "", lr[first][:400] if first >= 0 else ""))
        open(marker, "w").write("%d vectors agree\n" % len(og.splitlines()))
    return ["-I" + d, "-I" + os.path.join(VERIF, "cxx")]


def cxx_job(unit, name, unwind=8, **kw):
    return Job("h_cxx", variant=name, model=False, shim=False, defines={"VP_CUNIT": unit}, unwind=unwind,
               prepare=_cxx_prepare, timeout=900, solvers=("cadical",), no_repo_include=True,
               params={"str_max": 4},
               loop_rules=[(r"^F_", 8), (r"^ll_mem", 300), (r"^X_vp_inspect", 8)], **kw)


prop("C19", units=["reproc++/src/reproc.cpp", "reproc++/include/reproc++/reproc.hpp (options, options::clone, process)",
                   "reproc++/include/reproc++/arguments.hpp", "reproc++/include/reproc++/env.hpp",
                   "reproc++/include/reproc++/input.hpp", "reproc++/include/reproc++/detail/array.hpp"],
     assumptions=COMMON_ASSUME[1:] + [
         "route: clang++-14 -std=c++11 -O1 -fno-exceptions lowers cxx/wrap.cpp (which #includes the repository's "
         "reproc.cpp) to LLVM IR, cxx/ll2c.py translates the IR to C, cbmc checks that C; the translator is validated "
         "on every run by running the gcc build of the generated C and the g++ build of the real TU on 432 shared "
         "pseudo-random/boundary vectors (outputs must be identical)",
         "the assertions compare against the C header's own struct reproc_options / reproc_stop_actions / "
         "reproc_event_source (field order is the C compiler's)",
         "external calls (reproc_* C functions, std::system_category, std::generic_category, operator new[]/delete[]) are "
         "argument-recording stubs; new[] never fails; C results range over every int except INT_MIN",
         "templates are checked for one instantiation each: arguments::from<verif::vec> and env::from<verif::pvec> over a "
         "transparent container of (pointer, length) strings, <= 2 entries of <= 2 bytes - NOT std::vector<std::string>",
     ],
     outside=["drain.hpp and run.hpp (their error_code == errc comparisons dispatch virtually into libstdc++)",
              "std::vector / std::string / std::map instantiations", "exceptions (compiled with -fno-exceptions)",
              "Windows handle types"])
add("C19", lambda tier: [cxx_job(1, "options_from"), cxx_job(2, "clone"), cxx_job(3, "error_code"),
                         cxx_job(4, "methods", unwind=44), cxx_job(5, "containers", unwind=44), cxx_job(6, "enums", unwind=66)])


def _scale_drain(workdir):
    """scratch copy of drain.c with the 4096-byte read buffer scaled to the model's pipe capacity (2),
    so that 'a read that fills the whole buffer' exists; must match exactly once"""
    from .runner import SRC, Inconclusive
    d = os.path.join(workdir, "repo_scaled")
    os.makedirs(d, exist_ok=True)
    src = open(os.path.join(SRC, "drain.c")).read()
    old = "uint8_t buffer[4096];"
    if src.count(old) != 1:
        raise Inconclusive("cannot scale the drain buffer: declaration not found exactly once")
    open(os.path.join(d, "drain.c"), "w").write(src.replace(old, "uint8_t buffer[2];"))
    return ["-I" + d]


def drain_job(tier, mode, errmode, S=None, F=None, io=1):
    S = S if S is not None else (2 if tier == "quick" else 3)
    F = F if F is not None else (0 if tier == "quick" else 1)
    return Job("h_drain", variant="%s-err%d-S%d-F%d%s" % ("drain" if mode == 0 else "run", errmode, S, F,
                                                        "" if io else "-silent"),
               defines={"VP_MODE": mode, "VP_S": S, "VP_ERRMODE": errmode, "VP_IO": io, "VP_MAXEV": S + 1 if io else 1,
                        "VP_NFD": 16, "VP_NOFD": 16, "VP_LOG": 6, "VP_F": F},
               unwind=18, params={"nfd": 16, "retry": 3, "input_max": 0, "drain_iters": S + 4},
               prepare=_scale_drain,
               cbmc_flags=["--slice-formula"], timeout=2400, solvers=("cadical", "kissat"),
               bounds={"child_io_actions": S, "sink_calls_logged": 8, "pipe_capacity_bytes": 2,
                       "drain_loop_iterations": S + 3, "drain_read_buffer": "2 bytes (scaled from 4096)"})


prop("C16", units=["reproc/src/drain.c (reproc_drain, sink_string, reproc_sink_string, reproc_free)",
                   "reproc/src/run.c (reproc_run, reproc_run_ex)", "reproc/src/reproc.c (reproc_poll, reproc_read, "
                   "reproc_stop, reproc_destroy)"],
     assumptions=IO_ASSUME + [
         "sinks are logging stubs; one of them may return any non-zero value at any call index",
         "H_run: the handle is internal, so the child's stream pipes are identified by scanning the descriptor table at "
         "the first sink call; at most one injected fault; blocking forever is permitted (timing is C07/C15)",
         "H_sink_string: previous content NULL or <= 3 bytes, chunk <= 3 bytes, realloc may fail",
     ],
     outside=["reproc++/drain.hpp and run.hpp", "chunks larger than the 2-byte pipe model", "more than 8 sink calls"])
add("C16", lambda tier: [unit_job(6, "sink_string"), drain_job(tier, 0, 1), drain_job(tier, 1, 0, F=1, io=0)] +
    ([drain_job(tier, 0, 2), drain_job(tier, 0, 0), drain_job(tier, 1, 0, S=2, F=0)] if tier == "thorough" else []))


def frame_job(foot):
    n = 2
    return Job("h_frame", variant="footprint" if foot else "frame",
               defines={"VP_FOOT": foot, "VP_NCHILD": n, "VP_NPIPE": 4 * n, "VP_NFD": 3 + 4 * n + 1,
                        "VP_NOFD": 3 + 8 * n + 1, "VP_MAXEV": n},
               unwind=3 + 8 * n + 3, params={"n_sources": 1}, cbmc_flags=["--slice-formula"], timeout=1800,
               solvers=("cadical", "kissat"), bounds={"handles": 2, "calls": 1})


def static_job(windows=False):
    j = Job("symtab", variant="windows-static-storage" if windows else "static-storage",
            bounds={"scope": "all static-storage objects defined in " +
                    ("reproc/src/process.windows.c, redirect.windows.c, handle.windows.c, error.windows.c" if windows else "the reproc/src POSIX units")})
    j.structural = True
    return j


prop("C20", units=["reproc/src/reproc.c (reproc_read, reproc_write, reproc_close, reproc_wait, reproc_terminate, "
                   "reproc_kill, reproc_poll)", "reproc/src/error.posix.c (error_string)", "all POSIX units "
                   "(static-storage objects)"],
     assumptions=COMMON_ASSUME + [
         "REDUCED STRENGTH: real thread schedules are not encoded (goto-instrument --race-check aborts on struct members "
         "in this CBMC; kernel atomicity is outside any model). Decided instead: (a) frame - one API call on handle A "
         "leaves every field of handle B, B's descriptors, B's child and signals untouched; (b) footprint - reproc_read "
         "and reproc_write have disjoint write sets and neither uses the other's pipe field even when it holds garbage; "
         "(c) every static-storage object of the library is const or thread-local (from the goto symbol table); "
         "(d) start: no sigprocmask, no write of environ in the parent (H_start), children close foreign descriptors (C11)",
         "handles are constructed directly in arbitrary states satisfying the representation invariant",
     ],
     outside=["interleavings of a reader and a writer thread (only their footprints are compared)", "dead reads",
              "kernel atomicity of concurrent read/write/fork", "TSan-class dynamic races", "the window between pipe() "
              "and FD_CLOEXEC when another thread forks (C11's child-side closing loop is what protects against it)"])
add("C20", lambda tier: [frame_job(0), frame_job(1), static_job()] + start_jobs(tier, 0, F=0, types=(1,)))

prop("C17", units=["reproc/src/reproc.c (reproc_read, reproc_write, setup_input, reproc_start)",
                   "reproc/src/pipe.posix.c (pipe_read, pipe_write, pipe_nonblocking)", "reproc/src/redirect.c (redirect_pipe)"],
     assumptions=IO_ASSUME + [
         "'waits' is the model's ghost flag set whenever read/write/waitpid has to wait for an event; blocking forever is "
         "tolerated only without the nonblocking option (the child may never act)",
         "H_start (stdin pipe): start-up input of 0..3 bytes against the 2-byte pipe, O_NONBLOCK placement after start",
     ],
     outside=["pipe capacities other than the scaled one (only 'below / at / above capacity' is represented)"])
add("C17", lambda tier: [io_job(tier, 0), io_job(tier, 1)] + start_jobs(tier, 0, types=(1,)))


# ---- strengthening after the first mutation round (DESIGN 13)
add("C01", lambda tier: [stop_job(3, tier)])
add("C14", lambda tier: [stop_job(3, tier)])
add("C02", lambda tier: [io_job(tier, 0, F=1)] + start_jobs(tier, 0, types=(1,)))
add("C11", lambda tier: [static_job()])
add("C20", lambda tier: start_jobs(tier, 1, F=0, types=(1,)))
# C03's "the child receives exactly the argument strings passed" on Windows goes through the command line
add("C03", lambda tier: [win_job(1, "argv-2x2", 2, 2)])
add("C15", lambda tier: start_jobs(tier, 0, types=(1, 3)))

# ---- strengthening after the second mutation round
add("C07", lambda tier: [stop_job(0, tier, F=1), stop_job(3, tier)])
add("C08", lambda tier: [stop_job(2, tier, F=1)])
add("C05", lambda tier: [unit_job(6, "sink_string")])
add("C02", lambda tier: start_jobs(tier, 1, F=0, types=(1,)))
add("C14", lambda tier: start_jobs(tier, 0, types=(1,)))

for _p in LOWFD_PROPS:
    add(_p, lambda tier: lowfd_jobs(tier))

# ---- strengthening after the third mutation round
def winredir_job():
    return Job("h_winredir", model=False, shim=False,
               defines={"_WIN32": 1, "_WIN64": 1},
               cflags=["-I" + os.path.join(VERIF, "model", "win")],
               unwind=10, timeout=600, solvers=("cadical", "minisat"),
               bounds={"calls": "one redirect_init + redirect_destroy", "streams": 3, "redirect_types": 7,
                       "outcomes": "every Win32/CRT call it makes succeeds or fails with any code 1..20000"})

def winstart_job(cs):
    return Job("h_winstart", variant="env%d" % cs, model=False, shim=False,
               defines={"_WIN32": 1, "_WIN64": 1, "VP_CFGSET": cs},
               cflags=["-I" + os.path.join(VERIF, "model", "win")],
               unwind=16, timeout=900, solvers=("cadical", "minisat"),
               bounds={"calls": "one process_start", "failures": "at most one failing call per run",
                       "environment_options": ["EMPTY", "EXTEND, GetEnvironmentStringsW returns NULL", "EMPTY (parent block available, unused)", "EXTEND with parent block {P=1}"][cs], "argv": "{p, 'x y'}", "environment": "parent block {P=1} or none, extra {A=b, C=d} or none",
                       "outcomes": "every Win32 call and every allocation succeeds or fails (any code 1..20000)"})

add("C10", lambda tier: [winredir_job()])
WINSTART_PROPS = ("C04", "C10", "C11", "C03", "C05")
add("C06", lambda tier: [win_job(4, "signal")])
add("C01", lambda tier: [win_job(4, "signal")])
for _p in WINSTART_PROPS:
    add(_p, lambda tier: [winstart_job(c) for c in range(4)])
    META[_p]["units"] = list(META[_p]["units"]) + [
        "reproc/src/process.windows.c (process_start, env_setup, env_concat, env_join, argv_join, "
        "setup_attribute_list), compiled with -D_WIN32 -D_WIN64 against /verif/model/win/windows.h"]
    META[_p]["assumptions"] = list(META[_p]["assumptions"]) + [
        "Windows process_start: every Win32 call and allocation it makes is a stub that succeeds or fails; at most one "
        "call fails per run, with any code 1..20000 and any stale last-error value before it; utf16_from_utf8 is a stub "
        "returning pre-converted constant blocks chosen by the identity of its source (the source's text is checked); "
        "fixed short argv {p, 'x y'}, environment {P=1}/none + {A=b, C=d}/none, working directory 'wd'/none; option combination "
        "and position of an early failure are constants per call site of the harness, everything else is symbolic"]
META["C10"]["units"] = START_UNITS + ["reproc/src/redirect.windows.c + handle.windows.c + error.windows.c (constants) "
                                      "under redirect.c's redirect_init / redirect_destroy, compiled with -D_WIN32 -D_WIN64"]
META["C10"]["assumptions"] = START_ASSUME + [
    "Windows units: GetStdHandle / CreateFileW / CloseHandle / _fileno / _get_osfhandle / utf16_from_utf8 / "
    "pipe_init / pipe_nonblocking / pipe_destroy are stubs over a table of 8 handle objects; each succeeds or fails "
    "with any code 1..20000 except ERROR_BROKEN_PIPE (the library's own 'stream absent' value); each parent "
    "standard handle is present, absent (NULL) or GetStdHandle fails"]
META["C10"]["outside"] = START_OUTSIDE + ["Windows: pipe.windows.c, utf.windows.c and CreateProcessW's use of the handles "
                                          "(only redirect_init/redirect_destroy and process_start are encoded there)",
                                          "Windows: whether CreateProcessW accepts an inherit list that names one handle twice "
                                          "when the caller gives the same handle for stdin and another stream (only the "
                                          "stderr = stdout case, which the source handles, is asserted)"]
add("C05", lambda tier: [winredir_job()])
add("C04", lambda tier: [winredir_job()])
add("C18", lambda tier: [static_job(windows=True)])
add("C11", lambda tier: [static_job(windows=True)])
add("C20", lambda tier: [static_job(windows=True)])
add("C03", lambda tier: [cxx_job(2, "clone")])
