"""Which harnesses decide which property, with their bounds per tier."""
from .runner import Job

META = {}
_JOBS = {}


def prop(pid, units, assumptions, outside):
    META[pid] = {"units": units, "assumptions": assumptions, "outside": outside}
    _JOBS[pid] = []


def add(pid, fn):
    _JOBS[pid].append(fn)


def jobs_for(pid, tier):
    out = []
    for fn in _JOBS[pid]:
        out += fn(tier)
    return out


def known_jobs_for(pid, tier, known):
    return []


COMMON_ASSUME = [
    "cbmc 6.11.0 decides every obligation by bit-precise SAT over the goto program built "
    "by goto-cc from /repo's current working tree with the release flags (-std=c99 -DNDEBUG "
    "-DREPROC_MULTITHREADED); reproc's own ASSERT()s are compiled out as in the shipped build",
    "loop bounds are enforced by --unwinding-assertions: a too small bound fails the check as "
    "inconclusive instead of truncating paths",
]

# ------------------------------------------------------------------ C13
prop("C13",
     units=["reproc/src/options.c", "reproc/src/error.posix.c", "reproc/src/reproc.c (reproc_start)"],
     assumptions=COMMON_ASSUME + [
         "H_options: pointers are NULL or point to distinct dummy objects; 'handle set' means "
         "non-zero as in reproc.h; redirect types restricted to the 8 enumerators (out-of-range "
         "values are handled by H_noeffect)",
         "the oracle is a transcription of the comments in reproc.h (reproc_redirect, "
         "reproc_options.redirect/input/fork/deadline/stop); parent+discard together is required to "
         "be rejected only when some stream is left for them to decide ('compete')",
     ],
     outside=["Windows (fork option rejected there)", "semantic validity of handle numbers, FILE "
              "objects and paths (that is C04/C10)"])
add("C13", lambda tier: [Job("h_options", model=False, shim=False, unwind=4,
                             bounds={"ints": "full 32-bit", "streams": 3})])
