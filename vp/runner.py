"""Runner: builds harnesses from /repo's current working tree with goto-cc, decides
them with CBMC, replays counterexamples natively, writes evidence.

Exit codes of a check: 0 = property held on everything explored (KNOWN-FINDING lines
allowed); 1 = confirmed violation (prints VIOLATION property=<id> replay=<path>);
2 = inconclusive (timeout, out of memory, unwinding assertion failed, vacuous harness,
unconfirmed counterexample). Never 0 for an inconclusive run.
"""
import concurrent.futures as cf
import hashlib
import json
import os
import re
import resource
import shutil
import subprocess
import sys
import time

VERIF = os.path.dirname(os.path.dirname(os.path.abspath(__file__)))
REPO = os.environ.get("VP_REPO", "/repo")
WORK = os.path.join(VERIF, ".work")
SRC = os.path.join(REPO, "reproc", "src")
INC = os.path.join(REPO, "reproc", "include")

BASE_CFLAGS = ["-std=c99", "-DNDEBUG", "-DREPROC_MULTITHREADED",
               "-I" + INC, "-I" + SRC, "-I" + os.path.join(VERIF, "model"),
               "-I" + os.path.join(VERIF, "harness")]

CBMC_FLAGS = ["--no-malloc-may-fail", "--drop-unused-functions",
              "--unwinding-assertions", "--signed-overflow-check",
              "--undefined-shift-check", "--object-bits", "12", "--json-ui",
              "--verbosity", "8"]


class Inconclusive(Exception):
    pass


def sh(cmd, timeout=None, mem_gb=None, env=None, cwd=None):
    def limits():
        if mem_gb:
            b = int(mem_gb * (1 << 30))
            resource.setrlimit(resource.RLIMIT_AS, (b, b))
        os.setsid()
    t0 = time.time()
    try:
        p = subprocess.run(cmd, stdout=subprocess.PIPE, stderr=subprocess.PIPE,
                           timeout=timeout, preexec_fn=limits, env=env, cwd=cwd)
        return p.returncode, p.stdout.decode("utf-8", "replace"), \
            p.stderr.decode("utf-8", "replace"), time.time() - t0
    except subprocess.TimeoutExpired as e:
        out = (e.stdout or b"").decode("utf-8", "replace")
        return -9, out, "TIMEOUT after %ss" % timeout, time.time() - t0


def sh_race(cmds, timeout=None, mem_gb=None, tmpdir=None):
    """Run several equivalent commands (different SAT back ends) concurrently; the first
    one that terminates by itself wins, the others are killed."""
    import signal
    import tempfile

    def limits():
        if mem_gb:
            b = int(mem_gb * (1 << 30))
            resource.setrlimit(resource.RLIMIT_AS, (b, b))
        os.setsid()
    t0 = time.time()
    procs = []
    for label, cmd in cmds:
        out = tempfile.TemporaryFile()
        err = tempfile.TemporaryFile()
        env = dict(os.environ)
        if tmpdir:
            # external SAT solvers get their CNF through a temp file; a solver that loses the race is
            # killed and would leave it behind in /tmp, so it is written into the job's own directory
            os.makedirs(tmpdir, exist_ok=True)
            env["TMPDIR"] = tmpdir
        procs.append((label, subprocess.Popen(cmd, stdout=out, stderr=err, preexec_fn=limits, env=env), out, err))
    winner = None
    try:
        while winner is None:
            for label, pr, out, err in procs:
                rc = pr.poll()
                if rc is not None and rc >= 0:
                    out.seek(0)
                    txt = out.read().decode("utf-8", "replace")
                    if '"result"' in txt or len(procs) == 1:
                        winner = (label, rc, txt)
                        break
            if winner is None:
                if all(pr.poll() is not None for _, pr, _, _ in procs):
                    label, pr, out, err = procs[0]
                    out.seek(0)
                    err.seek(0)
                    winner = (label, pr.returncode, out.read().decode("utf-8", "replace"))
                    break
                if timeout and time.time() - t0 > timeout:
                    winner = ("timeout", -9, "")
                    break
                time.sleep(0.2)
    finally:
        for label, pr, out, err in procs:
            if pr.poll() is None:
                try:
                    os.killpg(pr.pid, signal.SIGKILL)
                except OSError:
                    pass
                pr.wait()
    return winner[0], winner[1], winner[2], "", time.time() - t0


SOLVER_FLAGS = {
    "minisat": [],
    "cadical": ["--sat-solver", "cadical"],
    "kissat": ["--external-sat-solver", "kissat"],
}


def repo_functions():
    """Names of functions defined in the repository's C sources (heuristic regex),
    used only to report which real functions an encoding reached."""
    names = {}
    rx = re.compile(r"^(?:static\s+)?(?:const\s+)?[A-Za-z_][\w\s\*]*?\b([A-Za-z_]\w*)\s*\([^;]*$")
    for f in sorted(os.listdir(SRC)):
        if not f.endswith(".c"):
            continue
        for line in open(os.path.join(SRC, f), errors="replace"):
            if line[:1] in " \t#/}{" or line.startswith("typedef"):
                continue
            m = rx.match(line.rstrip())
            if m and m.group(1) not in ("if", "for", "while", "switch", "return"):
                names.setdefault(m.group(1), f)
    return names


def source_digest(files):
    h = hashlib.sha256()
    for f in files:
        try:
            h.update(open(f, "rb").read())
        except OSError:
            h.update(b"<missing>")
    return h.hexdigest()[:16]


class Job:
    """One harness instance: harness source + defines + bounds."""

    def __init__(self, harness, variant="", defines=None, unwind=4, unwindset=None,
                 model=True, shim=True, extra_src=None, timeout=900, mem_gb=24,
                 entry="harness", cflags=None, cbmc_flags=None, prepare=None,
                 bounds=None, no_repo_include=False, loop_rules=None, params=None,
                 solvers=("cadical",)):
        self.harness = harness
        self.variant = variant
        self.defines = dict(defines or {})
        self.unwind = unwind
        self.unwindset = list(unwindset or [])
        self.model = model
        self.shim = shim
        self.extra_src = list(extra_src or [])
        self.timeout = timeout
        self.mem_gb = mem_gb
        self.entry = entry
        self.cflags = list(cflags or [])
        self.cbmc_flags = list(cbmc_flags or [])
        self.prepare = prepare  # callable(workdir) -> extra cflags (e.g. scaled source copy)
        self.bounds = dict(bounds or {})
        self.no_repo_include = no_repo_include
        self.loop_rules = list(loop_rules or [])
        self.params = dict(params or {})
        self.auto_unwindset = []
        self.solvers = tuple(solvers)

    @property
    def name(self):
        return self.harness + ("@" + self.variant if self.variant else "")

    def sources(self):
        s = [os.path.join(VERIF, "harness", self.harness + ".c")]
        if self.model:
            s.append(os.path.join(VERIF, "model", "posix_model.c"))
        s += [os.path.join(VERIF, x) for x in self.extra_src]
        s.append(os.path.join(VERIF, "model", "libc_extra.c"))
        return s

    def cflag_list(self, prop, workdir, native):
        fl = list(BASE_CFLAGS)
        if self.no_repo_include:
            fl = [x for x in fl if x not in ("-I" + SRC,)]
        fl += self.cflags
        for k, v in sorted(self.defines.items()):
            fl.append("-D%s=%s" % (k, v) if v is not None else "-D" + k)
        if prop == "ALL":
            fl.append("-DVP_ON_ALL")
        else:
            fl.append("-DVP_ON_%s=1" % prop)
        if not native:
            fl.append("-DVP_CBMC")
        if self.prepare:
            fl = self.prepare(workdir) + fl  # scratch copies shadow the repository's files
        return fl


def compile_goto(job, prop, workdir):
    out = os.path.join(workdir, "a.goto")
    objs = []
    for i, src in enumerate(job.sources()):
        o = os.path.join(workdir, "u%d.o" % i)
        fl = job.cflag_list(prop, workdir, native=False)
        if job.shim and src.endswith(job.harness + ".c"):
            fl = ["-include", os.path.join(VERIF, "model", "vp_shim.h")] + fl
        rc, so, se, _ = sh(["goto-cc", "-c", src, "-o", o] + fl, timeout=300)
        if rc != 0:
            raise Inconclusive("goto-cc failed for %s:\n%s" % (src, se[-3000:]))
        objs.append(o)
    rc, so, se, _ = sh(["goto-cc"] + objs + ["-o", out], timeout=300)
    if rc != 0:
        raise Inconclusive("goto-cc link failed:\n%s" % se[-3000:])
    return out


def reachable_functions(goto, entry):
    rc, so, se, _ = sh(["goto-instrument", "--call-graph", goto], timeout=300)
    edges = {}
    for line in so.splitlines():
        if " -> " in line:
            a, b = line.split(" -> ", 1)
            edges.setdefault(a.strip(), set()).add(b.strip())
    seen, todo = set(), [entry]
    while todo:
        f = todo.pop()
        if f in seen:
            continue
        seen.add(f)
        todo += list(edges.get(f, ()))
    return seen


_SRC_CACHE = {}


def _src_window(path, line, before=1, after=1):
    if path not in _SRC_CACHE:
        try:
            _SRC_CACHE[path] = open(path, errors="replace").read().splitlines()
        except OSError:
            _SRC_CACHE[path] = []
    L = _SRC_CACHE[path]
    lo, hi = max(0, line - 1 - before), min(len(L), line + after)
    return " ".join(L[lo:hi])


def compute_unwindset(job, goto):
    """Per-loop bounds keyed on the *source text* of each loop (robust against loop
    renumbering when the repository changes). Returns (list, table for evidence)."""
    rc, so, se, _ = sh(["goto-instrument", "--show-loops", "--json-ui", goto], timeout=300)
    try:
        data = json.loads(so)
    except ValueError:
        raise Inconclusive("cannot list loops: " + se[-500:])
    loops = []
    for it in data:
        if isinstance(it, dict) and "loops" in it:
            loops = it["loops"]
    rules = list(job.loop_rules) + DEFAULT_LOOP_RULES
    out, table = [], []
    for lp in loops:
        name = lp.get("name")
        loc = lp.get("sourceLocation", {})
        f, fn = loc.get("file", ""), loc.get("function", "")
        try:
            ln = int(loc.get("line", "0"))
        except ValueError:
            ln = 0
        text = fn + " :: " + (_src_window(f, ln) if f and not f.startswith("<") else f)
        bound = None
        for rx, b in rules:
            if re.search(rx, text):
                bound = b(job) if callable(b) else b
                break
        if bound is None:
            continue
        out.append("%s:%d" % (name, bound))
        table.append({"loop": name, "bound": bound, "where": "%s:%d" % (os.path.basename(f), ln)})
    # recursion: reproc_poll calls itself only on the Windows socket path; on POSIX the
    # recursion unwinding assertion proves that branch unreachable
    if any((lp.get("name") or "").startswith("reproc_poll.") for lp in loops):
        out.append("reproc_poll:1")
    return out, table


# (regex on "function :: source text around the loop", bound or callable(job))
DEFAULT_LOOP_RULES = [
    (r"signal < 32", 33),
    (r"sg < 32", 33),  # harness loops over the standard signals
    (r"sizeof\(reproc_t\)", 200),  # byte-wise comparison of a handle
    (r"sigaction\(", 66),  # any other loop over signal numbers (NSIG is 65 on Linux)
    (r"errno == EINTR", lambda j: j.params.get("retry", 3)),
    (r"max_fd", lambda j: j.params.get("nfd", 18) + 2),
    (r"getcwd\(", lambda j: j.params.get("cwd_growths", 1) + 2),
    (r"written < size", lambda j: j.params.get("input_max", 3) + 2),
    (r"STRV_FOREACH", lambda j: j.params.get("strv_max", 3) + 2),
    (r"^fd_in_set ", 7),
    (r"^reproc_drain ", lambda j: j.params.get("drain_iters", 8)),
    (r"num_sources|num_pipes", lambda j: 4 * j.params.get("n_sources", 1) + 2),
    (r"ARRAY_SIZE\((redirect|actions)\)", 4),
    (r"^(strlen|strcpy|strchr|strcmp|strncmp|memcpy|memset|memmove|wcslen|wcscpy|wcschr|strcspn|strspn|strpbrk|strnlen|"
     r"memrchr|stpcpy|strrchr|strncpy|memchr|strstr) ",
     lambda j: j.params.get("str_max", 8) + 2),
    (r"<builtin-library", lambda j: j.params.get("str_max", 8) + 2),
    (r"while \(0\)|do \{", 2),
]


def cbmc_cmd(job, goto, extra=None):
    cmd = ["cbmc", goto, "--function", job.entry] + CBMC_FLAGS
    cmd += ["--unwind", str(job.unwind)]
    us = list(job.unwindset) + list(getattr(job, "auto_unwindset", []))
    if us:
        cmd += ["--unwindset", ",".join(us)]
    cmd += job.cbmc_flags
    cmd += list(extra or [])
    return cmd


def parse_cbmc_json(text):
    try:
        data = json.loads(text)
    except ValueError:
        # truncated output (timeout / crash): try to salvage nothing
        return None
    res = {"results": [], "messages": [], "status": None}
    for it in data:
        if "result" in it:
            res["results"] = it["result"]
        elif "messageText" in it:
            res["messages"].append(it["messageText"])
        elif "cProverStatus" in it:
            res["status"] = it["cProverStatus"]
    return res


def solver_stats(messages):
    st = {"sat_variables": 0, "sat_clauses": 0, "solver_s": 0.0, "symex_steps": 0}
    for m in messages:
        mm = re.search(r"(\d+) variables, (\d+) clauses", m)
        if mm:
            st["sat_variables"] = max(st["sat_variables"], int(mm.group(1)))
            st["sat_clauses"] = max(st["sat_clauses"], int(mm.group(2)))
        mm = re.search(r"Runtime decision procedure: ([\d.]+)s", m)
        if mm:
            st["solver_s"] += float(mm.group(1))
        mm = re.search(r"size of program expression: (\d+) steps", m)
        if mm:
            st["symex_steps"] = max(st["symex_steps"], int(mm.group(1)))
    return st


def classify(r, prop):
    d = r.get("description", "")
    name = r.get("property", "")
    f = (r.get("sourceLocation") or {}).get("file", "")
    if d.startswith("COVER: "):
        return "cover"
    if d.startswith("MODEL: "):
        return "model"
    if re.match(r"C\d\d: ", d):
        return "tagged" if d.startswith(prop + ": ") or prop == "ALL" else "othertag"
    if "unwinding assertion" in d or ".unwind." in name or "recursion" in d:
        return "unwind"
    if ".no-body." in name:
        return "nobody"
    if f.startswith(REPO) or "/repo_scaled/" in f:
        return "builtin_repo"
    return "builtin_other"


def extract_choices(trace):
    """Choice vector in call order. One slot per call of vp_choice (goto-cc may rename the
    per-TU copies of the inline function to vp_choice$linkN). The value is the function's
    return value; if the solver's slice dropped it (the value is irrelevant to the
    failure) the last value of `v`, or else the lower bound `lo`, fills the slot so that
    later choices keep their positions."""
    ch = []
    cur = None
    for s in trace:
        st = s.get("stepType")
        if st == "function-call":
            name = (s.get("function") or {}).get("displayName", "")
            if name.split("$")[0] == "vp_choice":
                if cur is not None:
                    ch.append(cur)
                cur = {"lo": 0, "hi": None, "v": None, "ret": None}
            continue
        if st == "function-return":
            name = (s.get("function") or {}).get("displayName", "")
            if name.split("$")[0] == "vp_choice" and cur is not None:
                ch.append(cur)
                cur = None
            continue
        if st != "assignment" or cur is None:
            continue
        lhs = s.get("lhs", "")
        fn = (s.get("sourceLocation") or {}).get("function", "")
        try:
            val = int((s.get("value") or {}).get("data"))
        except (TypeError, ValueError):
            continue
        base = lhs.split("$link")[0]
        if base == "goto_symex$$return_value$$vp_choice":
            cur["ret"] = val
        elif fn.split("$")[0] == "vp_choice" and base == "v":
            cur["v"] = val
        elif base == "lo" and s.get("assignmentType") == "actual-parameter":
            cur["lo"] = val
        elif base == "hi" and s.get("assignmentType") == "actual-parameter":
            cur["hi"] = val
    if cur is not None:
        ch.append(cur)
    out = []
    for c in ch:
        val = c["ret"] if c["ret"] is not None else c["v"] if c["v"] is not None else c["lo"]
        if val < c["lo"] or (c["hi"] is not None and val > c["hi"]):
            val = c["lo"]  # the value was irrelevant to the failure (not constrained)
        out.append(val)
    return out


def native_build(job, prop, workdir, sanitize=True):
    exe = os.path.join(workdir, "replay.exe")
    fl = job.cflag_list(prop, workdir, native=True)
    cmd = ["gcc", "-g", "-O0", "-w", "-o", exe]
    if sanitize:
        cmd += ["-fsanitize=address,undefined", "-fno-sanitize-recover=undefined"]
    srcs = job.sources() + [os.path.join(VERIF, "model", "native.c")]
    # the shim is a forced include for the harness TU only: compile separately
    objs = []
    for i, src in enumerate(srcs):
        o = os.path.join(workdir, "n%d.o" % i)
        c = ["gcc", "-g", "-O0", "-w", "-c", src, "-o", o] + fl
        if sanitize:
            c += ["-fsanitize=address,undefined", "-fno-sanitize-recover=undefined"]
        if job.shim and src.endswith(job.harness + ".c"):
            c = c[:1] + ["-include", os.path.join(VERIF, "model", "vp_shim.h")] + c[1:]
        rc, so, se, _ = sh(c, timeout=300)
        if rc != 0:
            raise Inconclusive("native build failed for %s:\n%s" % (src, se[-3000:]))
        objs.append(o)
    rc, so, se, _ = sh(cmd + objs + ["-lpthread"], timeout=300)
    if rc != 0:
        raise Inconclusive("native link failed:\n%s" % se[-3000:])
    return exe


def native_replay(exe, replay_path, timeout=60):
    env = dict(os.environ)
    env["VP_REPLAY"] = replay_path
    env["ASAN_OPTIONS"] = "detect_leaks=0:abort_on_error=0:exitcode=45"
    env["UBSAN_OPTIONS"] = "halt_on_error=1:exitcode=45:print_stacktrace=1"
    rc, so, se, _ = sh([exe], timeout=timeout, env=env)
    return rc, so, se


def write_replay(path, prop, job, description, choices, extra=""):
    os.makedirs(os.path.dirname(path), exist_ok=True)
    with open(path, "w") as f:
        f.write("# vp replay file: choice vector for a counterexample\n")
        f.write("# property=%s\n# harness=%s\n# variant=%s\n" % (prop, job.harness, job.variant))
        f.write("# assertion=%s\n" % description)
        if extra:
            for ln in extra.splitlines():
                f.write("# %s\n" % ln)
        for c in choices:
            f.write("%d\n" % c)


def read_replay_header(path):
    hdr = {}
    for line in open(path):
        if line.startswith("# ") and "=" in line:
            k, v = line[2:].rstrip("\n").split("=", 1)
            hdr[k] = v
    return hdr


def static_storage_check(prop, job, workdir):
    """Structural obligation decided from the goto symbol table (front end of the same tool
    chain): every object of static storage duration defined in the repository's POSIX
    sources must be const or thread-local. Returns obligations and violations."""
    wfl = ["-DVP_CBMC", "-DVP_ON_%s=1" % prop, "-D_WIN32=1", "-D_WIN64=1", "-I" + os.path.join(VERIF, "model", "win")]
    if job.variant.startswith("windows"):
        # the Windows units, compiled as in H_win (process.windows.c) and H_winredir (redirect.windows.c,
        # handle.windows.c, error.windows.c, redirect.c)
        units = [(os.path.join(VERIF, "harness", "h_win.c"), list(BASE_CFLAGS) + wfl + ["-DVP_WUNIT=3"]),
                 (os.path.join(VERIF, "harness", "h_winredir.c"), list(BASE_CFLAGS) + wfl)]
    else:
        src = os.path.join(workdir, "sym.c")
        open(src, "w").write('#include "reproc_all.h"\n#include "vp_nocb.h"\nvoid harness(void) {}\n')
        units = [(src, list(BASE_CFLAGS) + ["-DVP_CBMC", "-DVP_ON_%s=1" % prop, "-include",
                                            os.path.join(VERIF, "model", "vp_shim.h")])]
    table = {}
    for n, (src, fl) in enumerate(units):
        goto = os.path.join(workdir, "sym%d.goto" % n)
        rc, so, se, _ = sh(["goto-cc", "-c", src, "-o", goto] + fl, timeout=300)
        if rc != 0:
            raise Inconclusive("goto-cc failed for the symbol-table unit:\n" + se[-2000:])
        rc, so, se, _ = sh(["goto-instrument", "--show-symbol-table", "--json-ui", goto], timeout=300)
        try:
            data = json.loads(so)
        except ValueError:
            raise Inconclusive("cannot read the goto symbol table")
        for it in data:
            if isinstance(it, dict) and "symbolTable" in it:
                table.update(it["symbolTable"])
    obligations, violations = [], []
    for name, sym in sorted(table.items()):
        loc = (sym.get("location") or {}).get("file", "")
        if not loc.startswith(REPO) or sym.get("isType") or not sym.get("isStaticLifetime"):
            continue
        ty = sym.get("type") or {}
        if ty.get("id") == "code" or sym.get("isMacro") or sym.get("isExtern"):
            continue  # extern declarations (e.g. libc's environ) are not the library's objects
        const = "#constant" in (ty.get("namedSub") or {}) or str(sym.get("prettyType", "")).startswith("const ")
        ok = const or bool(sym.get("isThreadLocal"))
        desc = "%s: static-storage object %s (%s) is const or thread-local" % (
            prop, name, os.path.basename(loc))
        obligations.append({"property": "symtab." + name, "description": desc, "kind": "tagged",
                            "status": "SUCCESS" if ok else "FAILURE"})
        if not ok:
            rp = os.path.join(VERIF, "replays", "%s-static-%s.replay" % (prop, re.sub(r"\W", "_", name)))
            os.makedirs(os.path.dirname(rp), exist_ok=True)
            open(rp, "w").write("# structural finding from the goto symbol table\n# property=%s\n# harness=%s\n"
                                "# variant=%s\n# assertion=%s\n# symbol=%s file=%s line=%s type=%s\n" % (
                                    prop, job.harness, job.variant, desc, name, loc,
                                    (sym.get("location") or {}).get("line"), sym.get("prettyType")))
            violations.append({"property": "symtab." + name, "kind": "tagged", "confirmed": True, "replay": rp,
                               "description": "%s: mutable process-wide static object %s in %s: shared between "
                                              "threads" % (prop, name, os.path.basename(loc)), "choices": []})
    return obligations, violations


def run_job(prop, job, run_dir, want_functions=True):
    """Returns a dict with verdict info for one harness instance."""
    t0 = time.time()
    if getattr(job, "structural", False):
        workdir = os.path.join(run_dir, re.sub(r"[^\w.@-]", "_", job.name))
        os.makedirs(workdir, exist_ok=True)
        info = {"harness": job.name, "bounds": dict(job.bounds), "status": "ok", "violations": [], "known": [],
                "notes": [], "obligations": [], "covers": [], "stats": {}, "functions": []}
        try:
            info["obligations"], info["violations"] = static_storage_check(prop, job, workdir)
            info["covers"] = [{"goal": "at least one static-storage object found in repository code",
                               "reached": len(info["obligations"]) > 0}]
            if not info["obligations"]:
                info["status"] = "inconclusive"
                info["notes"].append("VACUOUS: symbol table lists no static-storage object of the repository")
        except Inconclusive as e:
            info["status"] = "inconclusive"
            info["notes"].append(str(e))
        info["wall_s"] = round(time.time() - t0, 2)
        shutil.rmtree(workdir, ignore_errors=True)
        return info
    workdir = os.path.join(run_dir, re.sub(r"[^\w.@-]", "_", job.name))
    os.makedirs(workdir, exist_ok=True)
    info = {"harness": job.name, "bounds": dict(job.bounds, unwind=job.unwind,
                                                unwindset=job.unwindset),
            "status": "ok", "violations": [], "known": [], "notes": [],
            "obligations": [], "covers": [], "stats": {}, "functions": []}
    try:
        goto = compile_goto(job, prop, workdir)
        if want_functions:
            reach = reachable_functions(goto, job.entry)
            rf = repo_functions()
            info["functions"] = sorted(f for f in reach if f in rf)
            info["stubs"] = sorted(f for f in reach if re.match(
                r"vp_(pipe|close|read|write|fcntl|open|fileno|dup2|fork|waitpid|kill|poll|chdir|execvp|_exit|getcwd|"
                r"getrlimit|sigfillset|sigemptyset|sigaction|sigprocmask|pthread_sigmask|clock_gettime|malloc|calloc|"
                r"realloc|free|strdup|strerror_r)$", f))
        job.auto_unwindset, loop_table = compute_unwindset(job, goto)
        info["bounds"]["loops"] = loop_table
        cmd = cbmc_cmd(job, goto)
        label, rc, so, se, wall = sh_race([(sv, cmd + SOLVER_FLAGS[sv]) for sv in job.solvers],
                                          timeout=job.timeout, mem_gb=job.mem_gb,
                                          tmpdir=os.path.join(workdir, "tmp"))
        info["solver_backend"] = label
        info["cbmc_cmd"] = " ".join(cmd[:1] + ["<goto>"] + cmd[2:] + SOLVER_FLAGS.get(label, []))
        info["cbmc_wall_s"] = round(wall, 2)
        if rc == -9:
            raise Inconclusive("cbmc did not finish: timed out after %ss, or was killed (out of memory)" % job.timeout)
        parsed = parse_cbmc_json(so)
        if parsed is None or not parsed["results"]:
            tail = (so[-1500:] + "\n" + se[-1500:])
            raise Inconclusive("cbmc produced no verdict (rc=%s, out of memory or crash?):\n%s" % (rc, tail))
        info["stats"] = solver_stats(parsed["messages"])
        failed_real = []
        for r in parsed["results"]:
            kind = classify(r, prop)
            st = r.get("status")
            d = r.get("description", "")
            if kind == "cover":
                info["covers"].append({"goal": d[7:], "reached": st == "FAILURE"})
                continue
            if kind == "othertag":
                continue  # assertion of another property: compiled to nothing in this build
            if kind in ("builtin_other",):
                # checks inside harness/model code: a failure is a harness bug
                if st == "FAILURE":
                    info["notes"].append("check failed in harness/model code: %s (%s)" % (d, r.get("property")))
                    info["status"] = "inconclusive"
                continue
            if kind == "nobody":
                if st == "FAILURE":
                    # a call the model does not know (e.g. newly introduced by a change): CBMC gives it an
                    # arbitrary return value and no effects. Violations found that way are still replayed and
                    # reported; without a violation the run cannot claim that the property held.
                    info["notes"].append("callee without body (arbitrary return value, no effects): " + d)
                    info["unmodelled"] = True
                continue
            ob = {"property": r.get("property"), "description": d, "kind": kind,
                  "status": st}
            info["obligations"].append(ob)
            if st == "FAILURE":
                if kind == "unwind":
                    info["status"] = "inconclusive"
                    info["notes"].append("unwinding assertion failed: %s" % r.get("property"))
                elif kind == "model":
                    info["status"] = "inconclusive"
                    info["notes"].append("model integrity assertion failed: " + d)
                else:
                    failed_real.append(r)
            elif st != "SUCCESS":
                info["status"] = "inconclusive"
                info["notes"].append("status %s for %s" % (st, d))
        if info.get("unmodelled") and not failed_real:
            info["status"] = "inconclusive"
        unreached = [c["goal"] for c in info["covers"] if not c["reached"]]
        if unreached:
            info["status"] = "inconclusive"
            info["notes"].append("VACUOUS: unreachable cover goals: " + "; ".join(unreached))
        # confirm failures by native replay
        exe = None
        for r in failed_real[:6]:
            pname = r.get("property")
            # the trace is taken WITHOUT --slice-formula: the slicer drops choices that do not feed
            # the assertion itself although assumptions on the path depend on them
            cmd2 = [c for c in cbmc_cmd(job, goto, ["--property", pname, "--trace"] + SOLVER_FLAGS.get(label, []))
                    if c != "--slice-formula"]
            rc2, so2, se2, w2 = sh(cmd2, timeout=job.timeout, mem_gb=job.mem_gb)
            p2 = parse_cbmc_json(so2)
            trace = None
            if p2:
                for rr in p2["results"]:
                    if rr.get("property") == pname and rr.get("status") == "FAILURE":
                        trace = rr.get("trace")
            v = {"property": pname, "description": r.get("description"),
                 "kind": classify(r, prop), "confirmed": False}
            if trace is None:
                v["note"] = "no trace obtained"
                info["violations"].append(v)
                continue
            choices = extract_choices(trace)
            rp = os.path.join(VERIF, "replays", "%s-%s-%s.replay" % (
                prop, re.sub(r"[^\w.@-]", "_", job.name),
                re.sub(r"\W", "_", pname)))
            write_replay(rp, prop, job, r.get("description"), choices)
            v["replay"] = rp
            v["choices"] = choices[:200]
            try:
                if exe is None:
                    exe = native_build(job, prop, workdir)
                nrc, nso, nse = native_replay(exe, rp)
                v["native_rc"] = nrc
                want = "VP_ASSERT_FAIL " + r.get("description", "")
                if v["kind"] == "tagged":
                    v["confirmed"] = (nrc == 42 and want in nso)
                    if not v["confirmed"] and nrc in (42, 45):
                        # a different assertion / sanitizer fired first on the same
                        # path: still a native failure of the real code on this input
                        v["confirmed"] = True
                        v["note"] = "native replay failed at a different check: " + \
                            (nso.strip().splitlines()[-1] if nso.strip() else nse.strip()[-200:])
                else:
                    v["confirmed"] = nrc in (45,) or "ERROR: AddressSanitizer" in nse or "runtime error" in nse
                v["native_out"] = (nso[-600:] + nse[-600:])
            except Inconclusive as e:
                v["note"] = str(e)
            info["violations"].append(v)
    except Inconclusive as e:
        info["status"] = "inconclusive"
        info["notes"].append(str(e))
    info["wall_s"] = round(time.time() - t0, 2)
    if os.environ.get("VP_KEEP") != "1":
        shutil.rmtree(workdir, ignore_errors=True)
    return info


def run_property(prop, tier, jobs, meta, seed=0, workers=None):
    # thorough jobs are several times larger: fewer at a time, so that memory is not exhausted
    if workers is None and tier == "thorough":
        workers = min(6, max(1, len(jobs)))
    """Run all jobs of a property, print the verdict lines, write evidence, return rc."""
    t0 = time.time()
    run_dir = os.path.join(WORK, "run-%s-%d" % (prop, os.getpid()))
    os.makedirs(run_dir, exist_ok=True)
    workers = workers or min(16, max(1, len(jobs)))
    infos = []
    try:
        with cf.ThreadPoolExecutor(max_workers=workers) as ex:
            futs = [ex.submit(run_job, prop, j, run_dir) for j in jobs]
            for f in futs:
                infos.append(f.result())
    finally:
        shutil.rmtree(run_dir, ignore_errors=True)
    return infos, time.time() - t0
