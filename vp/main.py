import json
import os
import re
import shutil
import sys
import time

from . import runner
from . import registry

VERIF = runner.VERIF


def load_known():
    p = os.path.join(VERIF, "known_findings.json")
    if not os.path.exists(p):
        return []
    return json.load(open(p)).get("findings", [])


def write_evidence(prop, tier, seed, infos, wall, meta, violations, known_lines, partial=False):
    obligations = sum(len(i["obligations"]) for i in infos)
    discharged = sum(1 for i in infos for o in i["obligations"] if o["status"] == "SUCCESS")
    tagged = {(i["harness"], o["description"]) for i in infos for o in i["obligations"]
              if o["kind"] == "tagged"}
    covers = {(i["harness"], c["goal"]) for i in infos for c in i["covers"] if c["reached"]}
    cover_total = sum(len(i["covers"]) for i in infos)
    funcs = sorted({f for i in infos for f in i["functions"]})
    samples = []
    for i in infos:
        for o in i["obligations"]:
            if o["kind"] == "tagged":
                samples.append({"harness": i["harness"], "obligation": o["description"],
                                "verdict": o["status"]})
    samples = samples[:40]
    for i in infos:
        for c in i["covers"][:4]:
            samples.append({"harness": i["harness"], "cover_goal": c["goal"],
                            "reached": c["reached"]})
    for i in infos:
        for v in i["violations"]:
            samples.append({"harness": i["harness"], "counterexample_for": v.get("description"),
                            "confirmed_natively": v.get("confirmed"),
                            "choice_vector": v.get("choices", [])[:64],
                            "replay": v.get("replay")})
    if not samples:
        samples = [{"note": "no obligations were produced (all jobs inconclusive)"}]
    ev = {
        "property_id": prop,
        "tier": tier,
        "seed": seed,
        "level": "model_checking",
        "wall_s": round(wall, 2),
        "violations": violations,
        "coverage": {
            "evaluations": max(1, obligations + cover_total),
            "distinct_nontrivial": len(tagged) + len(covers),
            "rule": "one evaluation = one solver-decided obligation (property-tagged assertion, "
                    "CBMC built-in memory/overflow check in repository code, unwinding assertion) "
                    "or reachability goal, each decided over ALL symbolic inputs/faults/timings "
                    "within the stated bounds; distinct_nontrivial counts distinct "
                    "(harness, property-tagged assertion) pairs plus distinct reachability goals "
                    "the solver proved reachable (built-in checks are not counted)",
            "samples": samples,
            "obligations": obligations,
            "discharged": discharged,
            "cover_goals": cover_total,
            "cover_goals_reached": len(covers),
            "exhaustive": False,
            "functions_encoded": funcs,
            "stubs_reached": sorted({f for i in infos for f in i.get("stubs", [])}),
            "harnesses": [{
                "name": i["harness"], "status": i["status"], "bounds": i["bounds"],
                "cbmc": i.get("cbmc_cmd"), "cbmc_wall_s": i.get("cbmc_wall_s"),
                "wall_s": i.get("wall_s"), "stats": i.get("stats"),
                "obligations": len(i["obligations"]),
                "discharged": sum(1 for o in i["obligations"] if o["status"] == "SUCCESS"),
                "notes": i["notes"][:10],
            } for i in infos],
            "solver_s": round(sum(i.get("stats", {}).get("solver_s", 0) for i in infos), 2),
            "queries": obligations + cover_total,
            "checker_cmd": "cbmc <harness>.goto --function harness " + " ".join(runner.CBMC_FLAGS),
            "trusted_base": ["cbmc 6.11.0 (symex, bit-blasting, MiniSat/CaDiCaL back end)",
                             "goto-cc C front end", "the POSIX model in /verif/model (stubs listed in "
                             "assumptions)", "gcc + ASan/UBSan for native replay"],
            "known_findings_reported": known_lines,
            "units": meta.get("units", []),
            "outside_claim": meta.get("outside", []),
        },
        "assumptions": meta.get("assumptions", []),
    }
    # runs against a scratch copy of the repository (VP_REPO, used for mutation testing) and
    # partial runs (--only) must not overwrite the evidence of the real tree's full check
    evdir = os.path.join(VERIF, "evidence") if runner.REPO == "/repo" and not partial else \
        os.path.join(runner.WORK, "evidence-scratch")
    os.makedirs(evdir, exist_ok=True)
    tmp = os.path.join(evdir, prop + ".json.tmp")
    json.dump(ev, open(tmp, "w"), indent=1)
    os.replace(tmp, os.path.join(evdir, prop + ".json"))


def check_property(prop, tier, seed, only=None):
    t0 = time.time()
    meta = registry.META[prop]
    jobs = registry.jobs_for(prop, tier)
    if only:
        jobs = [j for j in jobs if only in j.name]
        if not jobs:
            print("[%s] INCONCLUSIVE: --only %s selects no job" % (prop, only))
            return 2
    known = [k for k in load_known() if k.get("property") == prop and k.get("status") == "open"]
    kjobs = registry.known_jobs_for(prop, tier, known) if known else []
    infos, wall = runner.run_property(prop, tier, jobs + [kj for kj, _ in kjobs], meta, seed)
    main_infos = infos[:len(jobs)]
    kinfos = infos[len(jobs):]
    rc = 0
    nviol = 0
    known_lines = []
    for i in main_infos:
        print("[%s] %-40s %-13s obligations=%d discharged=%d covers=%d/%d wall=%.1fs solver=%.1fs" % (
            prop, i["harness"], i["status"], len(i["obligations"]),
            sum(1 for o in i["obligations"] if o["status"] == "SUCCESS"),
            sum(1 for c in i["covers"] if c["reached"]), len(i["covers"]),
            i.get("wall_s", 0), i.get("stats", {}).get("solver_s", 0)))
        for n in i["notes"]:
            print("    note: " + n[:2000])
        for v in i["violations"]:
            if v.get("confirmed"):
                nviol += 1
                print("VIOLATION property=%s replay=%s" % (prop, v.get("replay")))
                print("    harness=%s assertion=%s" % (i["harness"], v.get("description")))
                if v.get("note"):
                    print("    " + v["note"])
                rc = 1
            else:
                print("UNCONFIRMED counterexample (did not reproduce natively): harness=%s %s replay=%s %s" % (
                    i["harness"], v.get("description"), v.get("replay"), v.get("note", "")))
                if rc == 0:
                    rc = 2
        if i["status"] != "ok" and rc == 0:
            rc = 2
    # known findings: the restricted-to-region run must still show the violation
    for (kj, k), i in zip(kjobs, kinfos):
        print("[%s] %-40s %-13s (known-finding region run)" % (prop, i["harness"], i["status"]))
        still = [v for v in i["violations"] if v.get("confirmed")]
        if still:
            line = "KNOWN-FINDING: property=%s %s" % (prop, k["what"])
            print(line)
            known_lines.append(line)
        else:
            print("[%s] known finding %s no longer reproduces (status=%s) - update known_findings.json" % (
                prop, k["key"], i["status"]))
    write_evidence(prop, tier, seed, infos, time.time() - t0, meta, nviol, known_lines, partial=bool(only))
    if rc == 0:
        print("[%s] HELD within bounds (%s tier, %.1fs)" % (prop, tier, time.time() - t0))
    elif rc == 2:
        print("[%s] INCONCLUSIVE (%s tier)" % (prop, tier))
    return rc


def replay(prop, path):
    hdr = runner.read_replay_header(path)
    hname, variant = hdr.get("harness"), hdr.get("variant", "")
    for tier in ("quick", "thorough"):
        for j in registry.jobs_for(prop, tier) + [kj for kj, _ in registry.known_jobs_for(prop, tier, load_known())]:
            if j.harness == hname and j.variant == variant:
                wd = os.path.join(runner.WORK, "replay-%d" % os.getpid())
                os.makedirs(wd, exist_ok=True)
                try:
                    exe = runner.native_build(j, prop, wd)
                    os.environ["VP_TRACE"] = "1"
                    rc, so, se = runner.native_replay(exe, path)
                    sys.stdout.write(so)
                    sys.stderr.write(se[-3000:])
                    if rc in (42, 45):
                        print("VIOLATION property=%s replay=%s" % (prop, path))
                        return 1
                    print("replay did not fail (rc=%d)" % rc)
                    return 0
                finally:
                    shutil.rmtree(wd, ignore_errors=True)
    print("no harness %s@%s registered for %s" % (hname, variant, prop))
    return 2


def main(argv):
    if not argv or argv[0] in ("-h", "--help"):
        print(__doc__ or "usage: ./check <Cxx> [--tier quick|thorough] [--replay f]")
        return 0
    if argv[0] == "--list":
        for p in sorted(registry.META):
            print(p, [j.name for j in registry.jobs_for(p, "quick")])
        return 0
    if argv[0] == "--setup":
        for tool in ("cbmc", "goto-cc", "goto-instrument", "gcc", "clang++-14", "python3"):
            if shutil.which(tool) is None:
                print("missing tool: " + tool)
                return 1
        os.makedirs(runner.WORK, exist_ok=True)
        print("setup ok")
        return 0
    prop = argv[0]
    tier = os.environ.get("VERIF_TIER", "quick")
    seed = int(os.environ.get("VERIF_SEED", "0") or 0)
    rp = None
    only = None
    a = argv[1:]
    while a:
        if a[0] == "--tier":
            tier = a[1]
            a = a[2:]
        elif a[0] == "--replay":
            rp = a[1]
            a = a[2:]
        elif a[0] == "--only":
            only = a[1]
            a = a[2:]
        else:
            print("unknown argument " + a[0])
            return 2
    if prop not in registry.META:
        print("unknown property " + prop)
        return 2
    if rp:
        return replay(prop, rp)
    return check_property(prop, tier, seed, only)
