/* doc_options.h - transcription of the option rules documented in reproc.h (comments on
 * reproc_redirect and on reproc_options.redirect / input / fork). Shared by H_options and
 * H_noeffect. It is written from the header's prose, not from options.c. */
#ifndef DOC_OPTIONS_H
#define DOC_OPTIONS_H
/* ---- documentation transcription ------------------------------------------ */

static bool doc_is_set(reproc_redirect r)
{
  return r.type != REPROC_REDIRECT_DEFAULT || r.handle != 0 || r.file != NULL ||
         r.path != NULL;
}

static bool doc_type_in_range(reproc_redirect r)
{
  return (unsigned) r.type <= (unsigned) REPROC_REDIRECT_PATH;
}

/* "If X is set, type must be unset or REPROC_REDIRECT_X and the others unset";
 * a type that needs a handle/file/path must have it; STDOUT only for stderr. */
static bool doc_explicit_ok(reproc_redirect r, REPROC_STREAM s)
{
  int set = (r.handle != 0) + (r.file != NULL) + (r.path != NULL);
  if (set > 1) {
    return false;
  }
  if (r.handle != 0 && r.type != REPROC_REDIRECT_DEFAULT &&
      r.type != REPROC_REDIRECT_HANDLE) {
    return false;
  }
  if (r.file != NULL && r.type != REPROC_REDIRECT_DEFAULT &&
      r.type != REPROC_REDIRECT_FILE) {
    return false;
  }
  if (r.path != NULL && r.type != REPROC_REDIRECT_DEFAULT &&
      r.type != REPROC_REDIRECT_PATH) {
    return false;
  }
  if (r.type == REPROC_REDIRECT_HANDLE && r.handle == 0) {
    return false;
  }
  if (r.type == REPROC_REDIRECT_FILE && r.file == NULL) {
    return false;
  }
  if (r.type == REPROC_REDIRECT_PATH && r.path == NULL) {
    return false;
  }
  if (r.type == REPROC_REDIRECT_STDOUT && s != REPROC_STREAM_ERR) {
    return false;
  }
  return true;
}

struct doc_result {
  bool valid;
  REPROC_REDIRECT type[3];
  FILE *file[3];
  const char *path[3];
};

static struct doc_result doc_options(const reproc_options *o,
                                     const char *const *argv)
{
  struct doc_result d;
  reproc_redirect r[3] = { o->redirect.in, o->redirect.out, o->redirect.err };
  bool parent = o->redirect.parent, discard = o->redirect.discard;
  FILE *file = o->redirect.file;
  const char *path = o->redirect.path;
  d.valid = true;

  /* shorthand file / path: out, err, parent, discard and the other shorthand
   * must be unset. */
  if (file != NULL &&
      (doc_is_set(r[1]) || doc_is_set(r[2]) || parent || discard || path)) {
    d.valid = false;
  }
  if (path != NULL &&
      (doc_is_set(r[1]) || doc_is_set(r[2]) || parent || discard || file)) {
    d.valid = false;
  }

  bool competes = false; /* is there a stream both parent and discard claim? */

  for (int s = 0; s < 3; s++) {
    d.file[s] = r[s].file;
    d.path[s] = r[s].path;
    if (!doc_explicit_ok(r[s], (REPROC_STREAM) s)) {
      d.valid = false;
    }
    if (r[s].handle != 0) {
      d.type[s] = REPROC_REDIRECT_HANDLE;
    } else if (r[s].file != NULL) {
      d.type[s] = REPROC_REDIRECT_FILE;
    } else if (r[s].path != NULL) {
      d.type[s] = REPROC_REDIRECT_PATH;
    } else if (r[s].type != REPROC_REDIRECT_DEFAULT) {
      d.type[s] = r[s].type;
    } else if (s != 0 && file != NULL) {
      d.type[s] = REPROC_REDIRECT_FILE;
      d.file[s] = file;
    } else if (s != 0 && path != NULL) {
      d.type[s] = REPROC_REDIRECT_PATH;
      d.path[s] = path;
    } else {
      competes = true;
      if (parent) {
        d.type[s] = REPROC_REDIRECT_PARENT;
      } else if (discard) {
        d.type[s] = REPROC_REDIRECT_DISCARD;
      } else {
        d.type[s] = s == 2 ? REPROC_REDIRECT_PARENT : REPROC_REDIRECT_PIPE;
      }
    }
  }

  if (parent && discard && competes) {
    d.valid = false;
  }

  /* input */
  if (o->input.data != NULL && d.type[0] != REPROC_REDIRECT_PIPE) {
    d.valid = false;
  }
  if (o->input.size > 0 && o->input.data == NULL) {
    d.valid = false;
  }
  /* fork / argv */
  if (o->fork ? argv != NULL : (argv == NULL || argv[0] == NULL)) {
    d.valid = false;
  }
  return d;
}

#endif
