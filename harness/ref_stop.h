/* ref_stop.h - reference semantics of wait / stop, written from reproc.h (:431-506) and
 * from the child's behaviour parameters only. It never looks at reproc's code or state.
 *
 * A child is (exit_at, status, reaction to SIGTERM, delays); a stop request is three
 * (action, timeout) pairs. The reference computes which signals must be sent and when,
 * what must be returned, how much virtual time must have passed, and whether blocking
 * forever is permitted.
 */
#ifndef REF_STOP_H
#define REF_STOP_H

#include <signal.h>

struct ref_child {
  int64_t dead_at; /* current end time or VP_NEVER */
  int cause;
  int nat_status, term_mode, term_delay, term_code, kill_delay;
  bool reaped;
  int status_value; /* exit status once reaped */
};

struct ref_result {
  int ret;
  int64_t t_end;
  int nsig;
  int sig[4];
  int64_t sig_at[4];
  bool hangs; /* the request blocks forever (allowed: the child never exits) */
};

static void ref_child_from_model(struct ref_child *k, int c)
{
  k->dead_at = vp_c_dead_at[c];
  k->cause = vp_c_cause[c];
  k->nat_status = vp_c_nat_status[c];
  k->term_mode = vp_c_term_mode[c];
  k->term_delay = vp_c_term_delay[c];
  k->term_code = vp_c_term_code[c];
  k->kill_delay = vp_c_kill_delay[c];
  k->reaped = vp_c_state[c] == VP_C_REAPED;
  k->status_value = -1;
}

static int ref_status_word(const struct ref_child *k)
{
  if (k->cause == VP_CAUSE_TERM) {
    return k->term_mode == VP_TERM_EXITS ? (k->term_code << 8) : SIGTERM;
  }
  if (k->cause == VP_CAUSE_KILL) {
    return SIGKILL;
  }
  if (k->cause == VP_CAUSE_STARTFAIL) {
    return 1 << 8;
  }
  return k->nat_status;
}

/* exit code, or 128 + signal number */
static int ref_decode(int w)
{
  return (w & 0x7f) == 0 ? ((w >> 8) & 0xff) : 128 + (w & 0x7f);
}

static void ref_signal(struct ref_child *k, struct ref_result *res, int sig, int64_t t)
{
  if (res->nsig < 4) {
    res->sig[res->nsig] = sig;
    res->sig_at[res->nsig] = t;
  }
  res->nsig++;
  if (k->dead_at <= t) {
    return; /* already a zombie: the signal has no effect */
  }
  if (sig == SIGKILL) {
    if (t + k->kill_delay < k->dead_at) {
      k->dead_at = t + k->kill_delay;
      k->cause = VP_CAUSE_KILL;
    }
  } else if (sig == SIGTERM && k->term_mode != VP_TERM_IGNORES) {
    if (t + k->term_delay < k->dead_at) {
      k->dead_at = t + k->term_delay;
      k->cause = VP_CAUSE_TERM;
    }
  }
}

/* reproc_wait(timeout) at time *t; deadline = absolute ms or -1 for none.
 * Returns the status, REPROC_ETIMEDOUT, or sets *hangs. */
static int ref_wait(struct ref_child *k, int64_t *t, int timeout, int64_t deadline, bool *hangs)
{
  if (k->reaped) {
    return k->status_value;
  }
  int64_t limit;
  if (timeout == -2) { /* REPROC_DEADLINE */
    if (deadline == -1) {
      limit = VP_NEVER;
    } else {
      limit = deadline > *t ? deadline : *t;
    }
  } else if (timeout < 0) {
    limit = VP_NEVER;
  } else {
    limit = *t + timeout;
  }
  if (k->dead_at != VP_NEVER && k->dead_at <= limit) {
    if (k->dead_at > *t) {
      *t = k->dead_at;
    }
    k->reaped = true;
    k->status_value = ref_decode(ref_status_word(k));
    return k->status_value;
  }
  if (limit == VP_NEVER) {
    *hangs = true;
    return 0;
  }
  *t = limit;
  return -ETIMEDOUT;
}

static struct ref_result ref_stop(struct ref_child *k, int64_t t0, int64_t deadline,
                                  const int action[3], const int timeout[3])
{
  struct ref_result res;
  res.nsig = 0;
  res.hangs = false;
  res.t_end = t0;
  res.ret = -EINVAL;
  int act[3] = { action[0], action[1], action[2] };
  int tmo[3] = { timeout[0], timeout[1], timeout[2] };
  if (act[0] == 0 && act[1] == 0 && act[2] == 0) {
    /* "wait until the deadline, then terminate and wait indefinitely" */
    act[0] = 1;
    tmo[0] = -2;
    act[1] = 2;
    tmo[1] = -1;
  }
  int64_t t = t0;
  for (int i = 0; i < 3; i++) {
    if (act[i] == 0) {
      continue; /* noop */
    }
    if (act[i] < 0 || act[i] > 3) {
      res.ret = -EINVAL;
      break;
    }
    if (!k->reaped) {
      if (act[i] == 2) {
        ref_signal(k, &res, SIGTERM, t);
      } else if (act[i] == 3) {
        ref_signal(k, &res, SIGKILL, t);
      }
    }
    res.ret = ref_wait(k, &t, tmo[i], deadline, &res.hangs);
    if (res.hangs || res.ret != -ETIMEDOUT) {
      break;
    }
  }
  res.t_end = t;
  return res;
}

#endif
