/* H_frame / H_footprint (C20, reduced strength - see DESIGN): real thread schedules cannot
 * be encoded; what is decided here is the absence of shared state that would make the
 * documented concurrent uses race:
 *  (a) frame: any API call on handle A leaves every byte of handle B, B's descriptors,
 *      B's child and the signal log entries of B untouched (different children from
 *      different threads);
 *  (b) footprint: reproc_write modifies no field other than the stdin pipe, reproc_read
 *      none other than the pipe of the stream it reads, and neither touches (reads as a
 *      descriptor or closes) the other's field even if that field holds garbage - so a
 *      reader thread and a writer thread on one child have disjoint write sets and no
 *      value flows between them inside the library.
 */
#define VP_N 2
#include "reproc_all.h"
#include "vp_nocb.h"
#include "h_common.h"
#include "h_build.h"

static uint8_t rbuf[4];
static const uint8_t wbuf[3] = { 1, 2, 3 };

static bool same_bytes(const reproc_t *a, const reproc_t *b)
{
  return a->handle == b->handle && a->pipe.in == b->pipe.in && a->pipe.out == b->pipe.out &&
         a->pipe.err == b->pipe.err && a->pipe.exit == b->pipe.exit && a->status == b->status &&
         a->deadline == b->deadline && a->nonblocking == b->nonblocking && a->child.out == b->child.out &&
         a->child.err == b->child.err && a->stop.first.action == b->stop.first.action &&
         a->stop.first.timeout == b->stop.first.timeout && a->stop.second.action == b->stop.second.action &&
         a->stop.second.timeout == b->stop.second.timeout && a->stop.third.action == b->stop.third.action &&
         a->stop.third.timeout == b->stop.third.timeout;
}

void harness(void)
{
  vp_std_setup();
  build(0);
  build(1);
  vp_hang_allowed = true;
  reproc_t *A = &procs[0], *B = &procs[1];
  reproc_t B0 = *B, A0 = *A;
  int bfd[4] = { B->pipe.in, B->pipe.out, B->pipe.err, B->pipe.exit };
  int bstate = vp_c_state[1];
  int64_t bdead = vp_c_dead_at[1];
  int blen[4];
  for (int i = 0; i < 4; i++) {
    blen[i] = bfd[i] >= 0 ? vp_pp_len[vp_of_pipe[vp_fd_ofd[bfd[i]]]] : -1;
  }

  int which = vp_choice(0, 7);
  size_t size = (size_t) vp_choice(0, 3);
  int stream = vp_choice(1, 2);
#if VP_FOOT
  /* footprint: poison the field the other thread works on */
  int poison = vp_choice(100, 200);
  if (which == 0) {
    A->pipe.in = poison;
    A0.pipe.in = poison;
  } else if (which == 1) {
    A->pipe.out = poison;
    A->pipe.err = poison;
    A0.pipe.out = poison;
    A0.pipe.err = poison;
  }
  VP_ASSUME(which <= 1);
#endif
  switch (which) {
    case 0: {
      int r = reproc_read(A, (REPROC_STREAM) stream, rbuf, size);
      (void) r;
      reproc_t chk = *A;
      if (stream == REPROC_STREAM_OUT) {
        chk.pipe.out = A0.pipe.out;
      } else {
        chk.pipe.err = A0.pipe.err;
      }
      VP_ASSERT(C20, same_bytes(&chk, &A0), "read modifies a field other than the pipe of the stream it reads");
      break;
    }
    case 1: {
      int r = reproc_write(A, wbuf, size);
      (void) r;
      reproc_t chk = *A;
      chk.pipe.in = A0.pipe.in;
      VP_ASSERT(C20, same_bytes(&chk, &A0), "write modifies a field other than the stdin pipe");
      break;
    }
    case 2:
      reproc_close(A, (REPROC_STREAM) vp_choice(0, 2));
      break;
    case 3:
      reproc_wait(A, vp_choice(-2, 1000));
      break;
    case 4:
      reproc_terminate(A);
      break;
    case 5:
      reproc_kill(A);
      break;
    case 6: {
      /* two threads may poll the same child (a reader for output, a writer for room): poll must
       * not keep any state in the handle - every byte of it is compared, so fields this harness
       * does not know about are covered too */
      static unsigned char before[sizeof(reproc_t)];
      for (size_t i = 0; i < sizeof(reproc_t); i++) {
        before[i] = ((const unsigned char *) A)[i];
      }
      reproc_event_source s = { A, vp_choice(0, 31), 0 };
      int tmo = vp_choice(-1, 1000);
      reproc_poll(&s, 1, tmo);
      bool untouched = true;
      for (size_t i = 0; i < sizeof(reproc_t); i++) {
        untouched = untouched && before[i] == ((const unsigned char *) A)[i];
      }
      VP_ASSERT(C20, untouched, "poll writes into the handle: two threads polling one child share that state");
      break;
    }
    default: {
      const char *m = reproc_strerror(vp_choice(-200, 200));
      VP_ASSERT(C20, m != NULL, "strerror returns null");
      break;
    }
  }
  /* frame: nothing of B moved */
  VP_ASSERT(C20, same_bytes(B, &B0), "a call on one handle modifies another handle");
  bool fds_ok = true, sig_ok = true;
  for (int i = 0; i < 4; i++) {
    if (bfd[i] >= 0) {
      fds_ok = fds_ok && vp_fd_open[bfd[i]] && vp_pp_len[vp_of_pipe[vp_fd_ofd[bfd[i]]]] == blen[i];
    }
  }
  for (int i = 0; i < VP_NSIG; i++) {
    sig_ok = sig_ok && (i >= vp_nsigs || vp_sig_pid[i] != vp_c_pid[1]);
  }
  VP_ASSERT(C20, fds_ok, "a call on one handle closes or consumes a descriptor of another handle");
  VP_ASSERT(C20, sig_ok, "a call on one handle signals another handle's child");
  VP_ASSERT(C20, vp_c_state[1] == bstate || (bstate == VP_C_RUNNING && vp_c_state[1] == VP_C_ZOMBIE && bdead <= vp_T),
            "a call on one handle reaps or kills another handle's child");
#if !VP_FOOT
  VP_COVER(which == 3 && A->status >= 0 && A0.status < 0, "wait on A reaps A's child");
#endif
  VP_COVER(which == 0 && A->pipe.out != A0.pipe.out, "read closes the stream it reads at end-of-file");
  VP_COVER(1, "end of harness");
}
