/* H_stop / H_destroy / H_wait: a handle started by the real reproc_start, a child with
 * symbolic behaviour (when it exits by itself, with which status, how it reacts to
 * SIGTERM and SIGKILL and after what delay), symbolic passage of time, then ONE call of
 *   -DVP_MODE=0  reproc_stop(p, symbolic triple)            (C07, C01, C06)
 *   -DVP_MODE=1  reproc_destroy(p) with a symbolic policy    (C15, C05, C07)
 *   -DVP_MODE=2  reproc_wait(p, symbolic timeout)            (C08, C01)
 * compared with the reference semantics of ref_stop.h (signals and their times, return
 * value, elapsed virtual time, permission to block forever).
 */
#include "reproc_all.h"
#include "vp_nocb.h"
#include "h_common.h"
#include "ref_stop.h"

#ifndef VP_MODE
#define VP_MODE 0
#endif
#ifndef VP_F
#define VP_F 0
#endif

static const char *const argv_plain[] = { "p", NULL };

static int pick_timeout(void)
{
  /* REPROC_DEADLINE, REPROC_INFINITE, 0 or any finite value up to 2^30 ms */
  int k = vp_choice(-2, 1);
  int fin = vp_choice(0, 1 << 30);
  return k < 0 ? k : k == 0 ? 0 : fin;
}

void harness(void)
{
  vp_std_setup();
  struct vp_snap snap0;
  vp_snapshot_table(&snap0);

  int action[3], timeout[3];
  for (int i = 0; i < 3; i++) {
    action[i] = vp_choice(-1, 4); /* noop, wait, terminate, kill and two out-of-range values */
    timeout[i] = pick_timeout();
  }
  reproc_stop_actions stop = { { (REPROC_STOP) action[0], timeout[0] },
                               { (REPROC_STOP) action[1], timeout[1] },
                               { (REPROC_STOP) action[2], timeout[2] } };

  reproc_options o = { 0 };
  o.deadline = vp_choice(0, 1 << 30);
#if VP_MODE == 1
  o.stop = stop;
#endif
  reproc_t *p = reproc_new();
  VP_ASSUME(p != NULL);
  int64_t t_start = vp_T;
  int r0 = reproc_start(p, argv_plain, o);
  VP_ASSUME(r0 > 0);
  vp_exec_done();
  int64_t deadline = o.deadline == 0 ? -1 : t_start + o.deadline;

  /* time passes; optionally the caller has already polled / reaped the child */
  vp_T += vp_choice(0, 1 << 30);
  int pre = vp_choice(0, 2);
  int pre_r = -1;
  vp_hang_allowed = true;
  if (pre == 1) {
    pre_r = reproc_wait(p, 0);
  } else if (pre == 2) {
    pre_r = reproc_wait(p, REPROC_INFINITE);
  }
  vp_T += vp_choice(0, 1 << 30);
  vp_progress();

  struct ref_child k;
  ref_child_from_model(&k, 0);
  if (k.reaped) {
    k.status_value = pre_r;
  }
  bool was_reaped = k.reaped;
  bool was_dead = vp_c_dead_at[0] <= vp_T;
  int64_t t0 = vp_T;
  int nsig0 = vp_nsigs;
  int polls0 = vp_poll_calls, waits0 = vp_waitpid_calls;
  vp_faults_left = VP_F;

#if VP_MODE == 3
  /* ------------------------------------------------------------ wait, failure, wait again
   * One failure (EINTR included) is injected into the first wait; whatever it returns, a
   * later wait must still be able to collect the child: the status is not lost, the child
   * does not stay a zombie, nothing is reaped twice. */
  VP_ASSUME(!k.reaped && vp_c_dead_at[0] != VP_NEVER);
  vp_faults_left = 2; /* e.g. waitpid interrupted twice in a row */
  vp_eintr_on = true;
  vp_hang_allowed = true;
  int r1 = reproc_wait(p, pick_timeout());
  vp_faults_left = 0;
  VP_ASSERT(C01, r1 < 0 || (vp_c_state[0] == VP_C_REAPED && r1 == vp_status_decode(vp_child_status(0))),
            "wait returns a status that is not the reaped child's");
  VP_ASSERT(C14, (r1 >= 0) == (p->status >= 0), "handle state does not match what wait returned");
  vp_hang_allowed = false; /* the child does exit: an infinite wait must come back */
  int r2 = reproc_wait(p, REPROC_INFINITE);
  VP_ASSERT(C01, r2 >= 0 && vp_c_state[0] == VP_C_REAPED && vp_c_reaps[0] == 1 &&
                     r2 == vp_status_decode(vp_child_status(0)),
            "after a failed wait the exit status is lost, the child stays a zombie or is reaped twice");
  VP_ASSERT(C14, r2 >= 0 && p->status == r2, "after a failed wait a later wait does not reach the exited state");
  VP_ASSERT(C07, r2 >= 0 && vp_c_state[0] == VP_C_REAPED,
            "after a failed step a later wait/stop no longer ends when the child has exited");
  VP_ASSERT(C05, vp_c_reaps[0] == 1, "child not reaped exactly once");
  VP_COVER(r1 == -EINTR, "first wait interrupted");
  VP_COVER(r1 >= 0, "first wait succeeds");
#elif VP_MODE == 2
  /* ------------------------------------------------------------------ wait */
  int tmo = pick_timeout();
  bool hangs = false;
  int64_t t = t0;
  int want = ref_wait(&k, &t, tmo, deadline, &hangs);
  vp_hang_allowed = hangs;
  vp_eintr_on = VP_F > 0;
  int r = reproc_wait(p, tmo);
  bool faulted = vp_faults_left < VP_F; /* a call failed (EINTR included): wait may report that error */
  VP_ASSERT(C08, !hangs || faulted, "wait returns although the child never exits and the timeout is infinite");
  VP_ASSERT(C08, r == want || (faulted && r < 0 && r != REPROC_ETIMEDOUT),
            "wait result differs from the reference (status / timeout error)");
  VP_ASSERT(C08, faulted ? (hangs || vp_T <= t) : vp_T == t,
            "wait returns at a different time than timeout / deadline / child exit dictate (an interrupted wait must not start over)");
  VP_ASSERT(C08, r != REPROC_ETIMEDOUT || (tmo >= 0 && vp_T - t0 >= tmo) ||
                     (tmo == REPROC_DEADLINE && deadline != -1 && vp_T >= deadline),
            "timeout error before the timeout (or deadline) has passed");
  VP_ASSERT(C08, r != REPROC_ETIMEDOUT || vp_c_state[0] == VP_C_RUNNING,
            "timeout error although the child has exited");
  VP_ASSERT(C01, r < 0 || (vp_c_state[0] == VP_C_REAPED && vp_c_reaps[0] == 1),
            "a status is returned although the child has not been reaped exactly once");
  VP_ASSERT(C01, r < 0 || was_reaped || r == vp_status_decode(vp_child_status(0)),
            "returned status is not the child's exit code / 128+signal");
  VP_ASSERT(C01, !was_reaped || (r == pre_r && vp_poll_calls == polls0 && vp_waitpid_calls == waits0),
            "a later wait does not return the cached status immediately");
  VP_ASSERT(C14, (r >= 0) == (p->status >= 0) && (r < 0 || p->status == r),
            "handle state after wait does not match what wait returned");
  VP_COVER(r == REPROC_ETIMEDOUT && tmo == REPROC_DEADLINE, "wait until deadline expires");
  VP_COVER(r >= 128 && !was_reaped, "wait returns a signal status");
  VP_COVER(r >= 0 && !was_dead && tmo > 0, "child exits during a finite wait");
  VP_COVER(was_reaped, "wait on an already reaped child");
  VP_COVER(r == REPROC_ETIMEDOUT && tmo == 0, "zero timeout on a running child");
#else
  /* ------------------------------------------------------------------ stop / destroy */
  struct ref_result want = ref_stop(&k, t0, deadline, action, timeout);
  vp_hang_allowed = want.hangs;
#if VP_MODE == 0
  vp_eintr_on = VP_F > 0;
  int r = reproc_stop(p, stop);
  bool faulted = vp_faults_left < VP_F;
  VP_ASSERT(C07, r == want.ret || (faulted && r < 0 && r != REPROC_ETIMEDOUT),
            "stop returns something other than the reference (status / timeout / invalid / the error of a failed step)");
  VP_ASSERT(C01, r < 0 || (vp_c_state[0] == VP_C_REAPED && vp_c_reaps[0] == 1),
            "stop returns a status although the child has not been reaped exactly once");
  VP_ASSERT(C01, r < 0 || was_reaped || r == vp_status_decode(vp_child_status(0)),
            "status returned by stop is not the child's exit code / 128+signal");
  VP_ASSERT(C01, !was_reaped || r == pre_r || r == REPROC_EINVAL,
            "stop after a successful wait returns a different status");
  VP_ASSERT(C01, !was_reaped || (vp_poll_calls == polls0 && vp_waitpid_calls == waits0),
            "stop after a successful wait touches the OS again");
  VP_ASSERT(C06, !was_reaped || vp_nsigs == nsig0, "a signal is sent after the child has been reaped");
#else
  reproc_t *q = reproc_destroy(p);
  VP_ASSERT(C15, q == NULL, "destroy does not return null");
  VP_ASSERT(C15, vp_table_equals(&snap0), "destroy leaves descriptors open (or closed foreign ones)");
  VP_ASSERT(C05, vp_table_equals(&snap0), "destroy leaves descriptors open (or closed foreign ones)");
  VP_ASSERT(C15, vp_live_allocs == 0, "destroy leaks memory");
  VP_ASSERT(C05, vp_live_allocs == 0, "destroy leaks memory");
  bool dflt = action[0] == 0 && action[1] == 0 && action[2] == 0;
  VP_ASSERT(C15, !dflt || vp_c_state[0] == VP_C_REAPED,
            "destroy with the default policy returns while the child is not reaped");
  VP_ASSERT(C15, !dflt || was_reaped || vp_nsigs - nsig0 <= 1,
            "default policy sends more than one signal");
  VP_ASSERT(C15, !dflt || vp_nsigs == nsig0 || was_reaped ||
                     (vp_sig_no[nsig0] == SIGTERM && deadline != -1 && vp_sig_at[nsig0] >= deadline),
            "default policy terminates the child before the deadline (or without one)");
  VP_ASSERT(C05, !(was_reaped) || vp_c_reaps[0] == 1, "child reaped twice");
#endif
#if VP_MODE == 1
  bool faulted = false;
#endif
  VP_ASSERT(C07, !want.hangs || faulted, "stop returns although it has to wait forever");
  VP_ASSERT(C15, !want.hangs, "destroy returns although the policy makes it wait forever");
  VP_ASSERT(C07, faulted ? vp_nsigs - nsig0 <= want.nsig : vp_nsigs - nsig0 == want.nsig,
            "number of signals sent differs from the stop sequence");
  VP_ASSERT(C15, vp_nsigs - nsig0 == want.nsig, "destroy sends other signals than the stop policy given at start");
  for (int i = 0; i < 3; i++) {
    if (i < want.nsig && nsig0 + i < VP_NSIG) {
      VP_ASSERT(C07, nsig0 + i >= vp_nsigs || vp_sig_no[nsig0 + i] == want.sig[i],
                "wrong signal (or wrong order) in the stop sequence");
      VP_ASSERT(C07, nsig0 + i >= vp_nsigs || vp_sig_at[nsig0 + i] == want.sig_at[i],
                "signal sent at the wrong time (timeout not respected)");
      VP_ASSERT(C15, vp_sig_no[nsig0 + i] == want.sig[i] && vp_sig_at[nsig0 + i] == want.sig_at[i],
                "destroy: signal or its time differs from the stop policy given at start");
      VP_ASSERT(C06, vp_sig_pid[nsig0 + i] == vp_c_pid[0], "signal sent to another pid");
    }
  }
  VP_ASSERT(C07, faulted ? (want.hangs || vp_T <= want.t_end) : vp_T == want.t_end,
            "stop ends at a different time than its timeouts and the child's exit dictate (an interrupted step must not start over)");
  VP_ASSERT(C15, vp_T == want.t_end, "destroy ends at a different time than the policy dictates");
  VP_COVER(want.nsig == 2 && want.ret >= 0, "terminate then kill, child reaped");
  VP_COVER(want.ret == -ETIMEDOUT && want.nsig == 1, "every wait timed out after one signal");
  VP_COVER(want.ret == -EINVAL, "out-of-range action");
  VP_COVER(want.ret >= 0 && want.nsig == 1 && vp_c_cause[0] == VP_CAUSE_NATURAL && !was_dead,
           "child exits by itself after a signal was sent (e.g. ignores SIGTERM)");
  VP_COVER(was_reaped && want.nsig == 0, "stop on an already reaped child sends nothing");
  VP_COVER(was_dead && !was_reaped && want.ret >= 0, "stop on an exited but unreaped child");
  VP_COVER(action[0] == 0 && action[1] == 0 && action[2] == 0 && want.nsig == 1,
           "default policy: deadline passes, terminate");
  VP_COVER(action[0] == 0 && action[1] == 0 && action[2] == 0 && want.nsig == 0 && !was_reaped,
           "default policy: child exits before the deadline, no signal");
  VP_COVER(action[0] == 1 && action[1] == 0 && want.ret == -ETIMEDOUT, "wait, noop: timeout error is kept");
#endif
  VP_COVER(1, "end of harness");
}
