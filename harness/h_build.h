/* h_build.h - construct started handles directly, in an arbitrary state that satisfies the
 * representation invariant (DESIGN 4), instead of producing them with reproc_start. */
#ifndef H_BUILD_H
#define H_BUILD_H
static reproc_t procs[VP_N];
static int st_kind[VP_N][3]; /* 0 no pipe, 1 open */

static void build(int c)
{
  reproc_t *p = &procs[c];
  int cs = vp_choice(0, 2); /* running, dead-unreaped, reaped */
  vp_test_child(c, cs == 0 ? VP_C_RUNNING : cs == 1 ? VP_C_ZOMBIE : VP_C_REAPED);
  p->handle = vp_c_pid[c];
  p->child.out = PIPE_INVALID;
  p->child.err = PIPE_INVALID;
  p->nonblocking = false;
  int *field[3] = { &p->pipe.in, &p->pipe.out, &p->pipe.err };
  for (int s = 0; s < 3; s++) {
    st_kind[c][s] = vp_choice(0, 1);
    bool child_open = vp_bool();
    int len = vp_choice(0, VP_CAP);
    if (st_kind[c][s] == 1) {
      *field[s] = vp_test_pipe(c, s != 0, cs == 0 && child_open, len);
    } else {
      *field[s] = PIPE_INVALID;
    }
  }
  if (cs == 2) {
    p->pipe.exit = PIPE_INVALID;
    p->status = vp_choice(0, 255);
  } else {
    p->pipe.exit = vp_test_pipe(c, true, cs == 0, 0);
    p->status = STATUS_IN_PROGRESS;
  }
  int dk = vp_choice(0, 2);
  int d = vp_choice(1, 1 << 30);
  p->deadline = dk == 0 ? -1 : dk == 1 ? vp_T + d : vp_T - (d - 1);
  VP_ASSUME(dk == 0 || p->deadline >= 0);
}

#endif
