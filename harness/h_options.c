/* H_options (C13): parse_options on a fully symbolic reproc_options record,
 * compared with a transcription of the documentation (reproc.h, comments on
 * reproc_redirect and reproc_options.redirect / input / fork / deadline / stop).
 *
 * Units: options.c, error.posix.c (real sources, #included).
 * No loops; every int is full width.
 */
#include "vp.h"

#include "options.c"
#include "error.posix.c"

#include <limits.h>

/* defined in reproc.c, which this leaf harness does not include */
const int REPROC_INFINITE = -1;
const int REPROC_DEADLINE = -2;

static int file_obj[4];
static const char path_obj[4][2] = { "a", "b", "c", "d" };
static const uint8_t input_obj[2] = { 'x', 'y' };
static const char *const argv_empty[] = { NULL };
static const char *const argv_prog[] = { "p", NULL };

static FILE *sym_file(int i) { return vp_bool() ? (FILE *) &file_obj[i] : NULL; }
static const char *sym_path(int i) { return vp_bool() ? path_obj[i] : NULL; }

static reproc_redirect sym_redirect(int i)
{
  reproc_redirect r;
  r.type = (REPROC_REDIRECT) vp_choice(INT_MIN, INT_MAX);
  r.handle = vp_choice(INT_MIN, INT_MAX);
  r.file = sym_file(i);
  r.path = sym_path(i);
  return r;
}

#include "doc_options.h"

void harness(void)
{
  reproc_options o;
  o.working_directory = sym_path(3);
  o.env.behavior = vp_bool() ? REPROC_ENV_EMPTY : REPROC_ENV_EXTEND;
  o.env.extra = NULL;
  o.redirect.in = sym_redirect(0);
  o.redirect.out = sym_redirect(1);
  o.redirect.err = sym_redirect(2);
  o.redirect.parent = vp_bool();
  o.redirect.discard = vp_bool();
  o.redirect.file = sym_file(3);
  o.redirect.path = sym_path(3);
  o.stop.first.action = (REPROC_STOP) vp_choice(INT_MIN, INT_MAX);
  o.stop.first.timeout = vp_choice(INT_MIN, INT_MAX);
  o.stop.second.action = (REPROC_STOP) vp_choice(INT_MIN, INT_MAX);
  o.stop.second.timeout = vp_choice(INT_MIN, INT_MAX);
  o.stop.third.action = (REPROC_STOP) vp_choice(INT_MIN, INT_MAX);
  o.stop.third.timeout = vp_choice(INT_MIN, INT_MAX);
  o.deadline = vp_choice(INT_MIN, INT_MAX);
  o.input.data = vp_bool() ? input_obj : NULL;
  o.input.size = (size_t) vp_choice(0, 2);
  o.fork = vp_bool();
  o.nonblocking = vp_bool();

  int av = vp_choice(0, 2);
  const char *const *argv = av == 0 ? NULL : av == 1 ? argv_empty : argv_prog;

  /* Out-of-range type values are not in the property's list of things that
   * must be rejected *up front* (H_noeffect requires EINVAL from start for
   * them); here they are assumed away. */
  VP_ASSUME(doc_type_in_range(o.redirect.in));
  VP_ASSUME(doc_type_in_range(o.redirect.out));
  VP_ASSUME(doc_type_in_range(o.redirect.err));

  reproc_options in = o;
  struct doc_result d = doc_options(&in, argv);

  int r = parse_options(&o, argv);

  VP_ASSERT(C13, r == 0 || r == REPROC_EINVAL,
            "parse_options returns 0 or the invalid-argument error");
  VP_ASSERT(C13, !d.valid ? r == REPROC_EINVAL : true,
            "record the documentation forbids is rejected with EINVAL");
  VP_ASSERT(C13, d.valid ? r == 0 : true,
            "record the documentation allows is accepted");

  if (r == 0 && d.valid) {
    VP_ASSERT(C13, o.redirect.in.type == d.type[0],
              "effective stdin redirect is the documented one");
    VP_ASSERT(C13, o.redirect.out.type == d.type[1],
              "effective stdout redirect is the documented one");
    VP_ASSERT(C13, o.redirect.err.type == d.type[2],
              "effective stderr redirect is the documented one");
    VP_ASSERT(C13,
              o.redirect.in.handle == in.redirect.in.handle &&
                  o.redirect.out.handle == in.redirect.out.handle &&
                  o.redirect.err.handle == in.redirect.err.handle,
              "handles are passed through unchanged");
    VP_ASSERT(C13,
              o.redirect.in.file == d.file[0] && o.redirect.out.file == d.file[1] &&
                  o.redirect.err.file == d.file[2],
              "FILE targets (explicit or shorthand) reach the right streams");
    VP_ASSERT(C13,
              o.redirect.in.path == d.path[0] && o.redirect.out.path == d.path[1] &&
                  o.redirect.err.path == d.path[2],
              "path targets (explicit or shorthand) reach the right streams");
    VP_ASSERT(C13,
              in.deadline == 0 ? o.deadline == REPROC_INFINITE
                               : o.deadline == in.deadline,
              "deadline 0 means none, any other value is kept");
    bool noop = in.stop.first.action == REPROC_STOP_NOOP &&
                in.stop.second.action == REPROC_STOP_NOOP &&
                in.stop.third.action == REPROC_STOP_NOOP;
    if (noop) {
      VP_ASSERT(C13,
                o.stop.first.action == REPROC_STOP_WAIT &&
                    o.stop.first.timeout == REPROC_DEADLINE &&
                    o.stop.second.action == REPROC_STOP_TERMINATE &&
                    o.stop.second.timeout == REPROC_INFINITE &&
                    o.stop.third.action == REPROC_STOP_NOOP,
                "all-noop stop policy becomes wait(deadline), terminate(infinite)");
    } else {
      VP_ASSERT(C13,
                o.stop.first.action == in.stop.first.action &&
                    o.stop.first.timeout == in.stop.first.timeout &&
                    o.stop.second.action == in.stop.second.action &&
                    o.stop.second.timeout == in.stop.second.timeout &&
                    o.stop.third.action == in.stop.third.action &&
                    o.stop.third.timeout == in.stop.third.timeout,
                "an explicit stop policy is kept as given");
    }
    VP_ASSERT(C13,
              o.working_directory == in.working_directory &&
                  o.env.behavior == in.env.behavior &&
                  o.input.data == in.input.data && o.input.size == in.input.size &&
                  o.fork == in.fork && o.nonblocking == in.nonblocking,
              "unrelated options are not altered by validation");
  }

  VP_COVER(r == 0 && o.redirect.err.type == REPROC_REDIRECT_STDOUT,
           "accepted: stderr to stdout");
  VP_COVER(r == 0 && in.redirect.file != NULL, "accepted: file shorthand");
  VP_COVER(r == 0 && in.redirect.path != NULL && in.redirect.in.handle != 0,
           "accepted: path shorthand with stdin handle");
  VP_COVER(r == 0 && in.redirect.parent && in.redirect.discard,
           "accepted: parent+discard with every stream explicit");
  VP_COVER(r < 0 && in.redirect.parent && in.redirect.discard,
           "rejected: competing parent+discard");
  VP_COVER(r < 0 && in.redirect.in.type == REPROC_REDIRECT_STDOUT,
           "rejected: stdout type on stdin");
  VP_COVER(r == 0 && in.input.data != NULL, "accepted: start-up input");
  VP_COVER(r == 0 && in.fork, "accepted: fork mode");
  VP_COVER(r == 0 && in.redirect.out.type == REPROC_REDIRECT_HANDLE,
           "accepted: explicit handle");
  VP_COVER(1, "end of harness");
}
