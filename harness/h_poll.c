/* H_poll (C09, C08): one reproc_poll over VP_N sources whose handles are CONSTRUCTED in
 * an arbitrary state satisfying the representation invariant (DESIGN 4) instead of being
 * produced by start: per source the process is absent or present; per stream (in, out,
 * err) the pipe is not a pipe / closed by the parent, or open with the child's end open
 * or closed and 0..2 bytes pending; the child is running (exits at a symbolic time or
 * never), dead but unreaped, or reaped; deadline none / future / expired; symbolic
 * interest masks and timeout in {0, finite, infinite}.
 */
#include "reproc_all.h"
#include "vp_nocb.h"
#include "h_common.h"

#ifndef VP_N
#define VP_N 2
#endif

#include "h_build.h"

/* what is true of stream s of handle c right now, according to the model */
static bool ready(int c, int s)
{
  reproc_t *p = &procs[c];
  int fd = s == 0 ? p->pipe.in : s == 1 ? p->pipe.out : s == 2 ? p->pipe.err : p->pipe.exit;
  if (fd == PIPE_INVALID) {
    return false;
  }
  int pp = vp_of_pipe[vp_fd_ofd[fd]];
  bool child_end = s == 0 ? vp_pp_cr[VP_PC(pp, c)] : vp_pp_cw[VP_PC(pp, c)];
  if (s == 0) {
    return !child_end || vp_pp_len[pp] < VP_CAP; /* closed stdin (error) or room to write */
  }
  return !child_end || vp_pp_len[pp] > 0; /* hang-up or data */
}

void harness(void)
{
  vp_std_setup();
  reproc_event_source src[VP_N];
  bool present[VP_N];
  for (int c = 0; c < VP_N; c++) {
    build(c);
    present[c] = vp_bool();
    src[c].process = present[c] ? &procs[c] : NULL;
    src[c].interests = vp_choice(0, 31);
    src[c].events = 0x4000; /* stale value: must be overwritten */
  }
  int tk = vp_choice(-1, 1);
  int fin = vp_choice(1, 1 << 30);
  int timeout = tk < 0 ? -1 : tk == 0 ? 0 : fin;

  /* ---- reference facts at call time ---- */
  int64_t t0 = vp_T;
  bool any_expired = false, any_deadline = false, any_pollable = false, ready_now = false;
  int64_t dmin = VP_NEVER;
  for (int c = 0; c < VP_N; c++) {
    if (!present[c]) {
      continue;
    }
    int64_t d = procs[c].deadline;
    if (d != -1) {
      any_deadline = true;
      if (d <= t0) {
        any_expired = true;
      }
      if (d < dmin) {
        dmin = d;
      }
    }
    int in = src[c].interests;
    bool want[4] = { in & REPROC_EVENT_IN, in & REPROC_EVENT_OUT, in & REPROC_EVENT_ERR, in & REPROC_EVENT_EXIT };
    int fdv[4] = { procs[c].pipe.in, procs[c].pipe.out, procs[c].pipe.err, procs[c].pipe.exit };
    for (int s = 0; s < 4; s++) {
      if (want[s] && fdv[s] != PIPE_INVALID) {
        any_pollable = true;
        ready_now = ready_now || ready(c, s);
      }
    }
  }
  int64_t limit = timeout < 0 ? VP_NEVER : t0 + timeout;
  if (any_deadline && dmin < limit) {
    limit = dmin;
  }
  /* blocking forever is fine only with no timeout, no deadline and nothing ever happening */
  vp_hang_allowed = timeout < 0 && !any_deadline;

  int r = reproc_poll(src, VP_N, timeout);

  /* ---- C09: exactly the true events ---- */
  int nev = 0;
  bool only_deadline = true, subset = true, truthful = true, complete = true, empty_silent = true;
  for (int c = 0; c < VP_N; c++) {
    int ev = src[c].events;
    if (r >= 0) {
      nev += ev != 0;
      if (!present[c]) {
        empty_silent = empty_silent && ev == 0;
        continue;
      }
      subset = subset && (ev & ~(src[c].interests | REPROC_EVENT_DEADLINE)) == 0 && (ev & ~31) == 0;
      only_deadline = only_deadline && (ev == 0 || ev == REPROC_EVENT_DEADLINE);
      int bit[4] = { REPROC_EVENT_IN, REPROC_EVENT_OUT, REPROC_EVENT_ERR, REPROC_EVENT_EXIT };
      for (int s = 0; s < 4; s++) {
        bool rd = ready(c, s);
        if (ev & bit[s]) {
          truthful = truthful && rd;
        }
        if (rd && (src[c].interests & bit[s]) && !(ev & REPROC_EVENT_DEADLINE)) {
          complete = complete && (ev & bit[s]);
        }
      }
    }
  }
  bool deadline_reported = false;
  for (int c = 0; c < VP_N; c++) {
    deadline_reported = deadline_reported || (r >= 0 && present[c] && (src[c].events & REPROC_EVENT_DEADLINE));
  }
  if (r >= 0) {
    VP_ASSERT(C09, subset, "reported events are not a subset of the interests plus the deadline event");
    VP_ASSERT(C09, empty_silent, "a source without process reports events");
    VP_ASSERT(C09, r == nev, "return value is not the number of sources with events");
    VP_ASSERT(C09, truthful, "an event is reported although the corresponding read/write/wait would block");
    VP_ASSERT(C09, r == 0 || deadline_reported || complete,
              "pending output, a closed stream or an exited child that was polled for is not reported");
    VP_ASSERT(C09, !(r == 0 && ready_now), "poll reports nothing although something polled for was already true");
    VP_ASSERT(C09, !(ready_now && !any_expired) || vp_T == t0, "poll waits although something polled for was already true");
  }
  VP_ASSERT(C09, (r == REPROC_EPIPE) == (!any_pollable && !any_expired),
            "closed-pipe error is not returned exactly when no requested stream of any source can be polled");
  VP_ASSERT(C09, r >= 0 || r == REPROC_EPIPE, "poll fails with something other than the closed-pipe error");

  /* ---- C08: bounded by timeout and earliest deadline ---- */
  VP_ASSERT(C08, vp_T <= limit || limit < t0, "poll blocks past the smaller of its timeout and the earliest deadline");
  if (any_expired) {
    VP_ASSERT(C08, r == 1 && vp_T == t0, "an expired deadline is not reported immediately");
    bool good = true;
    for (int c = 0; c < VP_N; c++) {
      if (present[c] && src[c].events != 0) {
        good = good && src[c].events == REPROC_EVENT_DEADLINE && procs[c].deadline != -1 && procs[c].deadline <= t0;
      }
    }
    VP_ASSERT(C08, good && only_deadline, "expired deadline: something other than the deadline event on an expired source is reported");
  } else if (r == 0) {
    VP_ASSERT(C08, timeout >= 0 && vp_T == t0 + timeout, "poll returns 0 at a time other than the end of its timeout");
    VP_ASSERT(C08, !any_deadline || dmin >= vp_T, "poll returns 0 (timeout) although a deadline came first");
  } else if (r > 0 && deadline_reported) {
    VP_ASSERT(C08, r == 1 && only_deadline, "the deadline event is mixed with other events");
    bool on_earliest = true;
    for (int c = 0; c < VP_N; c++) {
      if (present[c] && src[c].events != 0) {
        on_earliest = on_earliest && procs[c].deadline == dmin;
      }
    }
    VP_ASSERT(C08, on_earliest, "the deadline event is reported on a source whose deadline is not the earliest");
    VP_ASSERT(C08, vp_T == dmin, "the deadline event is reported at a time other than the deadline");
    VP_ASSERT(C08, timeout < 0 || dmin <= t0 + timeout, "a deadline is reported although the timeout came first");
  }
  VP_ASSERT(C14, src[0].events != 0x4000 || r < 0, "events field left untouched by a successful poll");

  VP_COVER(r == 2, "two sources with events");
  VP_COVER(r == 1 && deadline_reported && !any_expired && present[0] && procs[0].deadline == -1 && VP_N > 1,
           "future deadline of the second source while the first has none");
  VP_COVER(r == 0 && timeout > 0, "timeout first");
  VP_COVER(r == REPROC_EPIPE, "nothing to poll");
  VP_COVER(r == 1 && !deadline_reported && vp_T > t0, "child exits during the wait");
  VP_COVER(any_expired && ready_now, "expired deadline wins over pending data");
  VP_COVER(r > 0 && !present[0], "empty source first");
  VP_COVER(1, "end of harness");
}
