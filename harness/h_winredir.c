/* H_winredir (C10, Windows units): the real redirect.c + redirect.windows.c + handle.windows.c
 * + error.windows.c, compiled on Linux with -D_WIN32 -D_WIN64 against the stand-in
 * /verif/model/win/{windows,io,winsock2}.h. One redirect_init for a symbolic stream, a symbolic
 * redirect type and symbolic outcomes of every Win32 / CRT call it makes, followed by the
 * redirect_destroy that reproc_start runs on the child's end.
 *
 * The handle world is a small table of objects; GetStdHandle / CreateFileW / _get_osfhandle /
 * pipe_init hand out pointers into it, CloseHandle / pipe_destroy mark them closed.
 */
#include "vp.h"

#include <stddef.h>
#include <stdint.h>
#include <stdlib.h>
#include <string.h>
#include <wchar.h>

/* redirect_path releases the converted path with free(): account for it */
static void vp_free(void *p);
#define free(p) vp_free(p)

#include "redirect.c"
#include "redirect.windows.c"
#include "handle.windows.c"
#include "error.windows.c"

enum { K_NONE, K_STD, K_NUL, K_PATH, K_USER, K_CRT, K_PIPE_R, K_PIPE_W };
enum { NOBJ = 8 };
static struct {
  int kind;
  int id;          /* stream of a K_STD, index of a user object */
  DWORD access;    /* CreateFileW dwDesiredAccess */
  DWORD dispo;     /* CreateFileW dwCreationDisposition */
  DWORD share;
  BOOL inherit;
  bool open;
  bool by_library; /* created during the call under test */
  bool nonblocking;
} obj[NOBJ];
static int nobj;
static int closes_of_foreign; /* CloseHandle / pipe_destroy on something the library did not create */
static int double_close;

static int new_obj(int kind, int id, bool lib)
{
  VP_MODEL_ASSERT(nobj < NOBJ, "handle table space");
  obj[nobj].kind = kind;
  obj[nobj].id = id;
  obj[nobj].open = true;
  obj[nobj].by_library = lib;
  return nobj++;
}
static int obj_of(const void *h)
{
  for (int i = 0; i < NOBJ; i++) {
    if (h == (const void *) &obj[i]) {
      return i;
    }
  }
  return -1;
}

/* ---- what fails, and with which code ---- */
static DWORD last_error;
static int failed_calls;   /* number of stubbed calls that reported failure */
static DWORD failed_code;  /* last error of the (first) failing call */
static void fail_with(void)
{
  DWORD c = (DWORD) vp_choice(1, 20000);
  /* -ERROR_BROKEN_PIPE is the library's internal "stream absent / closed" value (REPROC_EPIPE); a
   * call failing with exactly that code is indistinguishable from it by design and is left out,
   * like EPIPE among the injected errnos of the POSIX model */
  VP_ASSUME(c != ERROR_BROKEN_PIPE);
  last_error = c;
  if (failed_calls == 0) {
    failed_code = c;
  }
  failed_calls++;
}
void SetLastError(DWORD e) { last_error = e; }
DWORD GetLastError(void) { return last_error; }

static int std_mode[3]; /* 0 present, 1 absent (NULL), 2 GetStdHandle fails */
static int std_obj[3];
HANDLE GetStdHandle(DWORD id)
{
  int s = id == STD_INPUT_HANDLE ? 0 : id == STD_OUTPUT_HANDLE ? 1 : id == STD_ERROR_HANDLE ? 2 : -1;
  VP_MODEL_ASSERT(s >= 0, "GetStdHandle called with one of the three standard ids");
  if (std_mode[s] == 1) {
    return NULL;
  }
  if (std_mode[s] == 2) {
    fail_with();
    return INVALID_HANDLE_VALUE;
  }
  return (HANDLE) &obj[std_obj[s]];
}

/* the path strings the harness hands in, and the one the library passes to CreateFileW */
static const char user_path[] = "p\xc3\xa9"; /* 2 characters, 3 bytes: converted by the stub below */
static int conv_allocs, conv_frees;
static wchar_t conv_buf[4];
static int conv_src; /* 1 = "NUL", 2 = the user's path, 0 = something else */
wchar_t *utf16_from_utf8(const char *s, int n)
{
  VP_MODEL_ASSERT(n == -1, "path converted up to its terminator");
  conv_src = s == user_path ? 2 : (s[0] == 'N' && s[1] == 'U' && s[2] == 'L' && s[3] == '\0') ? 1 : 0;
  bool fail = vp_bool();
  if (fail) {
    fail_with();
    return NULL;
  }
  conv_allocs++;
  conv_buf[0] = conv_src == 1 ? L'N' : L'p';
  conv_buf[1] = conv_src == 1 ? L'U' : (wchar_t) 0xe9;
  conv_buf[2] = conv_src == 1 ? L'L' : L'\0';
  conv_buf[3] = L'\0';
  return conv_buf;
}
/* redirect_path frees the converted path with free(): route it here */
static void vp_free(void *p)
{
  if (p == (void *) conv_buf) {
    conv_frees++;
  } else {
    VP_MODEL_ASSERT(p == NULL, "free of something that was not allocated");
  }
}

HANDLE CreateFileW(LPCWSTR path, DWORD access, DWORD share, SECURITY_ATTRIBUTES *sa, DWORD dispo, DWORD attr, HANDLE templ)
{
  (void) attr;
  (void) templ;
  VP_MODEL_ASSERT(path == conv_buf, "CreateFileW receives the converted path");
  bool fail = vp_bool();
  if (fail) {
    fail_with();
    return INVALID_HANDLE_VALUE;
  }
  int o = new_obj(conv_src == 1 ? K_NUL : K_PATH, conv_src, true);
  obj[o].access = access;
  obj[o].dispo = dispo;
  obj[o].share = share;
  obj[o].inherit = sa != NULL && sa->bInheritHandle;
  return (HANDLE) &obj[o];
}

BOOL CloseHandle(HANDLE h)
{
  int o = obj_of(h);
  VP_MODEL_ASSERT(o >= 0, "CloseHandle on a handle of the table");
  if (!obj[o].open) {
    double_close++;
  }
  if (!obj[o].by_library) {
    closes_of_foreign++;
  }
  obj[o].open = false;
  return 1;
}

static int crt_fd_ok, crt_os_ok;
static int crt_obj;
static FILE *user_file;
int _fileno(FILE *f)
{
  VP_MODEL_ASSERT(f == user_file, "_fileno on the caller's FILE");
  return crt_fd_ok ? 7 : -1;
}
intptr_t _get_osfhandle(int fd)
{
  VP_MODEL_ASSERT(fd == 7, "_get_osfhandle on the descriptor _fileno returned");
  return crt_os_ok ? (intptr_t) &obj[crt_obj] : -1;
}

/* pipe.windows.c is not part of this harness: its contract is "two fresh ends or a negative
 * error" */
const pipe_type PIPE_INVALID = (pipe_type) ~(pipe_type) 0;
static int pipe_r = -1, pipe_w = -1;
int pipe_init(pipe_type *read, pipe_type *write)
{
  bool fail = vp_bool();
  if (fail) {
    fail_with();
    return -(int) last_error;
  }
  pipe_r = new_obj(K_PIPE_R, 0, true);
  pipe_w = new_obj(K_PIPE_W, 0, true);
  *read = (pipe_type) (uintptr_t) &obj[pipe_r];
  *write = (pipe_type) (uintptr_t) &obj[pipe_w];
  return 0;
}
int pipe_nonblocking(pipe_type pipe, bool enable)
{
  int o = obj_of((const void *) (uintptr_t) pipe);
  VP_MODEL_ASSERT(o >= 0 && obj[o].open, "pipe_nonblocking on an open pipe end");
  bool fail = vp_bool();
  if (fail) {
    fail_with();
    return -(int) last_error;
  }
  obj[o].nonblocking = enable;
  return 0;
}
pipe_type pipe_destroy(pipe_type pipe)
{
  if (pipe == PIPE_INVALID) {
    return PIPE_INVALID;
  }
  int o = obj_of((const void *) (uintptr_t) pipe);
  VP_MODEL_ASSERT(o >= 0, "pipe_destroy on a pipe end of the table");
  if (!obj[o].open) {
    double_close++;
  }
  if (!obj[o].by_library) {
    closes_of_foreign++;
  }
  obj[o].open = false;
  return PIPE_INVALID;
}

/* error.windows.c's error_string is not under test */
DWORD FormatMessageW(DWORD fl, const void *src, DWORD id, DWORD lang, wchar_t *buf, DWORD size, void *args)
{
  (void) fl; (void) src; (void) id; (void) lang; (void) buf; (void) size; (void) args;
  return 0;
}
int WideCharToMultiByte(unsigned cp, DWORD fl, const wchar_t *w, int nw, char *s, int ns, const char *d, BOOL *used)
{
  (void) cp; (void) fl; (void) w; (void) nw; (void) s; (void) ns; (void) d; (void) used;
  return 0;
}

void harness(void)
{
  for (int s = 0; s < 3; s++) {
    std_obj[s] = new_obj(K_STD, s, false);
    std_mode[s] = vp_choice(0, 2);
  }
  int user = new_obj(K_USER, 0, false);
  int outh = new_obj(K_USER, 1, false); /* the child's stdout end, for STDOUT */
  crt_obj = new_obj(K_CRT, 0, false);
  crt_fd_ok = vp_bool();
  crt_os_ok = vp_bool();
  static int file_cell;
  user_file = (FILE *) &file_cell;
  last_error = (DWORD) vp_choice(0, 20000); /* stale value from before the call */

  int s = vp_choice(0, 2);
  int t = vp_choice(1, 7);
  VP_ASSUME(t != REPROC_REDIRECT_STDOUT || s == 2);
  bool nonblocking = vp_bool();
  reproc_redirect rd = { 0 };
  rd.type = (REPROC_REDIRECT) t;
  rd.handle = (HANDLE) &obj[user];
  rd.file = user_file;
  rd.path = user_path;

  pipe_type parent = 12345;
  handle_type child = HANDLE_INVALID;
  int r = redirect_init(&parent, &child, (REPROC_STREAM) s, &rd, nonblocking, (HANDLE) &obj[outh]);

  DWORD want_access = s == 0 ? GENERIC_READ : GENERIC_WRITE;
  int co = obj_of(child);

  /* ---- failure: only when a call failed, and with that call's error ---- */
  bool crt_bad = t == REPROC_REDIRECT_FILE && (!crt_fd_ok || !crt_os_ok);
  if (r < 0) {
    VP_ASSERT(C10, failed_calls > 0 || crt_bad,
              "redirect_init fails although every system call it made succeeded (a valid configuration is refused)");
    if (failed_calls > 0) {
      VP_ASSERT(C10, r == -(int) failed_code, "redirect_init does not report the error of the call that failed");
      VP_ASSERT(C04, r == -(int) failed_code, "Windows: an unusable redirect target is not reported with the error of the call that failed");
    }
    bool leak = false;
    for (int i = 0; i < NOBJ; i++) {
      leak = leak || (obj[i].by_library && obj[i].open);
    }
    VP_ASSERT(C10, !leak, "a failed redirect_init leaves a handle it opened");
    VP_ASSERT(C10, parent == 12345 || parent == PIPE_INVALID, "a failed redirect_init hands a pipe to the parent");
  } else {
    VP_ASSERT(C10, failed_calls == 0 && !crt_bad, "redirect_init reports success although a call it depends on failed");
    VP_ASSERT(C04, failed_calls == 0 && !crt_bad, "Windows: redirect_init reports success although a call it depends on failed");
    VP_ASSERT(C10, co >= 0 && obj[co].open, "the child's end is not an open handle");
    if (co >= 0) {
      switch (t) {
        case REPROC_REDIRECT_PIPE: {
          bool ends = s == 0 ? (co == pipe_r && parent == (pipe_type) (uintptr_t) &obj[pipe_w])
                             : (co == pipe_w && parent == (pipe_type) (uintptr_t) &obj[pipe_r]);
          VP_ASSERT(C10, ends, "pipe redirect: the child does not get the read end for stdin / the write end for stdout, stderr, "
                               "or the parent does not hold the other end");
          int po = s == 0 ? pipe_w : pipe_r;
          VP_ASSERT(C17, po >= 0 && obj[po].nonblocking == nonblocking && !obj[co].nonblocking,
                    "nonblocking mode is not applied to exactly the parent's end");
          break;
        }
        case REPROC_REDIRECT_PARENT:
          if (std_mode[s] == 0) {
            VP_ASSERT(C10, co == std_obj[s], "parent redirect: the child's end is not the parent's own stream");
            VP_ASSERT(C10, rd.type == REPROC_REDIRECT_PARENT, "parent redirect: type rewritten although the stream exists");
          } else {
            VP_ASSERT(C10, obj[co].kind == K_NUL && obj[co].by_library && obj[co].access == want_access,
                      "parent redirect without parent stream: the child's end is not the null device opened in the right direction");
          }
          break;
        case REPROC_REDIRECT_DISCARD:
          VP_ASSERT(C10, obj[co].kind == K_NUL && obj[co].by_library && obj[co].access == want_access,
                    "discard: the child's end is not the null device opened in the right direction");
          break;
        case REPROC_REDIRECT_HANDLE:
          VP_ASSERT(C10, co == user, "handle redirect: the child's end is not the given handle");
          break;
        case REPROC_REDIRECT_FILE:
          VP_ASSERT(C10, co == crt_obj, "FILE redirect: the child's end is not the handle behind the FILE");
          break;
        case REPROC_REDIRECT_STDOUT:
          VP_ASSERT(C10, co == outh, "stderr-to-stdout: the child's stderr is not its stdout end");
          break;
        case REPROC_REDIRECT_PATH:
          VP_ASSERT(C10, obj[co].kind == K_PATH && obj[co].id == 2 && obj[co].access == want_access &&
                             obj[co].dispo == OPEN_ALWAYS,
                    "path redirect: not the given path opened for reading (stdin) / writing, created if missing");
          break;
        default:
          break;
      }
    }
    if (t != REPROC_REDIRECT_PIPE) {
      VP_ASSERT(C10, parent == PIPE_INVALID, "the parent is given a pipe end for a stream that is not a pipe");
    }
    /* what reproc_start does with the child's end once the child has its copy */
    handle_type after = redirect_destroy(child, rd.type);
    VP_ASSERT(C05, after == HANDLE_INVALID, "redirect_destroy does not return the invalid handle");
    bool lib_child_left = co >= 0 && obj[co].by_library && obj[co].open;
    VP_ASSERT(C05, !lib_child_left, "a handle the library opened for the child is not closed after start");
    VP_ASSERT(C10, closes_of_foreign == 0, "the parent's own stream or a handle of the caller is closed");
  }
  VP_ASSERT(C05, conv_allocs == conv_frees, "converted path is not released");
  VP_ASSERT(C05, double_close == 0, "a handle is closed twice");
  VP_ASSERT(C10, closes_of_foreign == 0, "the parent's own stream or a handle of the caller is closed");

  VP_COVER(r >= 0 && t == REPROC_REDIRECT_PARENT && std_mode[s] == 1, "parent stream absent: null device");
  VP_COVER(r >= 0 && t == REPROC_REDIRECT_PARENT && std_mode[s] == 0, "parent stream present");
  VP_COVER(r < 0 && t == REPROC_REDIRECT_PARENT && std_mode[s] == 2, "GetStdHandle fails");
  VP_COVER(r >= 0 && t == REPROC_REDIRECT_PIPE && s == 0, "stdin pipe");
  VP_COVER(r < 0 && t == REPROC_REDIRECT_PIPE && pipe_r >= 0, "pipe_nonblocking fails after pipe_init");
  VP_COVER(r >= 0 && t == REPROC_REDIRECT_PATH && s == 2, "stderr path");
  VP_COVER(r >= 0 && t == REPROC_REDIRECT_FILE, "FILE redirect");
  VP_COVER(r < 0 && crt_bad, "FILE without usable handle");
  VP_COVER(r >= 0 && t == REPROC_REDIRECT_STDOUT, "stderr to stdout");
  VP_COVER(1, "end of harness");
}
