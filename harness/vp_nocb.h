/* empty model callbacks for harnesses that do not observe exec/_exit/fork */
#ifndef VP_NOCB_H
#define VP_NOCB_H
void vp_on_exec(const char *file, char *const argv[])
{
  (void) file;
  (void) argv;
}
void vp_on_exit(int status) { (void) status; }
void vp_on_fork(void) {}
#endif
