/* H_winstart (C11, C10, C03, C04 - Windows units): the real process_start of
 * reproc/src/process.windows.c (with argv_join, env_setup, env_concat, setup_attribute_list)
 * compiled on Linux with -D_WIN32 -D_WIN64 against the stand-in
 * /verif/model/win/windows.h. Every Win32 call and every allocation succeeds or fails
 * symbolically; what CreateProcessW receives is compared with what the options asked for.
 *
 * Strings are short constants (quoting is C18's subject); MultiByteToWideChar is the identity
 * on ASCII.
 */
#include "vp.h"

#ifndef VP_CFGSET
#define VP_CFGSET 0 /* 0..3: environment behaviour x parent block available; both values of "extra" */
#endif

#include <stddef.h>
#include <stdint.h>
#include <stdlib.h>
#include <string.h>
#include <wchar.h>

/* ---- allocation accounting, with failures ----
 * Blocks come from typed pools (one per element type): CBMC's own calloc hands out byte arrays, and
 * reading those as wchar_t turns every access into a byte_extract over a symbolic offset (the run
 * did not fit in 15 GB). Sizing of the buffers is C18's subject (H_win, canary arenas); here a block
 * has POOL_ELEMS elements and a request beyond that is a model error. */
/* Which call fails is a CONSTANT per call site of the harness (see run_cfg): a failure decided by a
 * fresh symbolic value inside a stub merges "returned NULL" with "returned the block" when the stub
 * returns, and every later loop over that block then has a symbolic trip count. */
static int call_no, early_fail = -1, late_fail_at = -1, late_fail;
static bool should_fail(void)
{
  int n = call_no++; /* a constant for the symbolic executor */
  if (n < 6) {
    return n == early_fail; /* constant: early calls never depend on the symbolic late position */
  }
  return n == late_fail_at;
}
enum { POOL_SLOTS = 6, POOL_ELEMS = 14 };
/* separate one-dimensional arrays: a block inside a two-dimensional pool made CBMC rewrite the
 * whole pool (byte_update) on every store */
static wchar_t w0[POOL_ELEMS], w1[POOL_ELEMS], w2[POOL_ELEMS], w3[POOL_ELEMS], w4[POOL_ELEMS], w5[POOL_ELEMS];
static char c0[POOL_ELEMS], c1[POOL_ELEMS], c2[POOL_ELEMS], c3[POOL_ELEMS], c4[POOL_ELEMS], c5[POOL_ELEMS];
static wchar_t *wslot(int k)
{
  return k == 0 ? w0 : k == 1 ? w1 : k == 2 ? w2 : k == 3 ? w3 : k == 4 ? w4 : w5;
}
static char *cslot(int k)
{
  return k == 0 ? c0 : k == 1 ? c1 : k == 2 ? c2 : k == 3 ? c3 : k == 4 ? c4 : c5;
}
static int wpool_next, cpool_next;
static bool wpool_live[POOL_SLOTS], cpool_live[POOL_SLOTS];
static int live_allocs, alloc_failures, bad_frees;
static void *vp_calloc(size_t n, size_t sz)
{
  /* the slot is consumed whether or not the allocation succeeds, so that slot numbers stay
   * constants for the symbolic executor */
  bool wide = sz == sizeof(wchar_t);
  int k = wide ? wpool_next++ : cpool_next++;
  bool fail = should_fail();
  if (fail) {
    alloc_failures++;
    return NULL;
  }
  VP_MODEL_ASSERT(n <= POOL_ELEMS && (sz == 1 || wide), "request fits a pool block");
  VP_MODEL_ASSERT(k < POOL_SLOTS, "pool space");
  live_allocs++;
  if (wide) {
    wchar_t *b = wslot(k);
    for (int i = 0; i < POOL_ELEMS; i++) {
      b[i] = 0;
    }
    wpool_live[k] = true;
    return b;
  }
  char *b = cslot(k);
  for (int i = 0; i < POOL_ELEMS; i++) {
    b[i] = 0;
  }
  cpool_live[k] = true;
  return b;
}
static int conv_freed;
static bool is_conv_block(const void *p);
static void vp_free(void *p)
{
  if (p == NULL) {
    return;
  }
  if (is_conv_block(p)) {
    conv_freed++;
    return;
  }
  bool found = false;
  for (int k = 0; k < POOL_SLOTS; k++) {
    if (p == (void *) wslot(k) && wpool_live[k]) {
      wpool_live[k] = false;
      found = true;
    }
    if (p == (void *) cslot(k) && cpool_live[k]) {
      cpool_live[k] = false;
      found = true;
    }
  }
  if (found) {
    live_allocs--;
  } else {
    bad_frees++; /* double free, or free of something that was never allocated */
  }
}
static size_t vp_wcslen(const wchar_t *s)
{
  size_t n = 0;
  while (s[n] != L'\0') {
    n++;
  }
  return n;
}
static wchar_t *vp_wcscpy(wchar_t *d, const wchar_t *s)
{
  size_t i = 0;
  do {
    d[i] = s[i];
  } while (s[i++] != L'\0');
  return d;
}
static wchar_t *vp_wcschr(const wchar_t *s, wchar_t c)
{
  size_t i = 0;
  while (s[i] != c) {
    if (s[i] == L'\0') {
      return NULL;
    }
    i++;
  }
  return (wchar_t *) &s[i];
}
#define calloc(n, sz) vp_calloc(n, sz)
#define malloc(n) vp_calloc(n, 1)
#define free(p) vp_free(p)
#define wcslen(s) vp_wcslen(s)
#define wcscpy(d, s) vp_wcscpy(d, s)
#define wcschr(s, c) vp_wcschr(s, c)

#include "process.windows.c"


/* ---- Win32 stubs ---- */
static DWORD last_error;
static int failed_calls;
static DWORD failed_code;
static void fail_with(void)
{
  DWORD c = (DWORD) vp_choice(1, 20000);
  last_error = c;
  if (failed_calls == 0) {
    failed_code = c;
  }
  failed_calls++;
}
void SetLastError(DWORD e) { last_error = e; }
DWORD GetLastError(void) { return last_error; }

const int REPROC_SIGTERM = 128 + 15;
const int REPROC_SIGKILL = 128 + 9;
const HANDLE HANDLE_INVALID = INVALID_HANDLE_VALUE;

enum { NH = 8 };
static struct {
  bool inherit, open;
} hobj[NH];
static int hidx(HANDLE h)
{
  for (int i = 0; i < NH; i++) {
    if (h == (HANDLE) &hobj[i]) {
      return i;
    }
  }
  return -1;
}
static int closes[NH];
HANDLE handle_destroy(HANDLE h)
{
  if (h == NULL || h == HANDLE_INVALID) {
    return HANDLE_INVALID;
  }
  int i = hidx(h);
  VP_MODEL_ASSERT(i >= 0, "handle_destroy on a handle of the table");
  closes[i]++;
  hobj[i].open = false;
  return HANDLE_INVALID;
}

/* utf.windows.c is not part of this harness. Its stand-in hands out PRE-CONVERTED constant blocks
 * chosen by the content of the source string: a conversion that writes a fresh block at run time
 * gets merged with the failing path when the function returns, after which every later loop over
 * the converted text has a symbolic trip count (no verdict within 18 GB). */
static wchar_t CONV_CMD[] = { 'p', ' ', '"', 'x', ' ', 'y', '"', 0 };
static wchar_t CONV_WD[] = { 'w', 'd', 0 };
static wchar_t CONV_EXTRA[] = { 'A', '=', 'b', 0, 'C', '=', 'd', 0, 0 };
static int conv_live;
static bool conv_cmd_ok, conv_extra_ok;
static const char wd_str[] = "wd";
static bool ceq(const char *a, const char *b, int n)
{
  for (int i = 0; i < n; i++) {
    if (a[i] != b[i]) {
      return false;
    }
  }
  return true;
}
static bool is_conv_block(const void *p)
{
  return p == (const void *) CONV_CMD || p == (const void *) CONV_WD || p == (const void *) CONV_EXTRA;
}
wchar_t *utf16_from_utf8(const char *s, int size)
{
  bool fail = should_fail();
  if (fail) {
    fail_with();
    return NULL;
  }
  conv_live++;
  /* The block is chosen by constants of the call, never by the text of the source: the caller's
   * working directory by identity; otherwise a request "up to the terminator" (-1) gets the command
   * line's block and a request with an explicit size gets the block of extra entries. No assumption
   * is made about the order in which the library converts or allocates. Whether the source holds the
   * expected text and how much of it was requested is recorded separately and asserted by the
   * harness. */
  if (s == wd_str) {
    return CONV_WD;
  }
  if (size == -1) {
    /* sticky: a further conversion of some other terminated string (not handed to CreateProcessW)
     * must not turn into an alarm */
    bool this_ok = ceq(s, "p \"x y\"", 8);
    conv_cmd_ok = conv_cmd_ok || this_ok;
    return CONV_CMD;
  }
  /* the block has inner terminators: the library has to pass its full size */
  bool extra_ok = size == 9 && ceq(s, "A=b\0C=d\0", 9);
  conv_extra_ok = conv_extra_ok || extra_ok;
  return CONV_EXTRA;
}

BOOL SetHandleInformation(HANDLE h, DWORD mask, DWORD flags)
{
  int i = hidx(h);
  VP_MODEL_ASSERT(i >= 0, "SetHandleInformation on a handle of the table");
  bool fail = should_fail();
  if (fail) {
    fail_with();
    return 0;
  }
  if (mask & HANDLE_FLAG_INHERIT) {
    hobj[i].inherit = (flags & HANDLE_FLAG_INHERIT) != 0;
  }
  return 1;
}

static int list_state; /* 0 none, 1 initialized, 2 deleted */
static void *list_ptr;
static HANDLE listed[4];
static size_t listed_n;
static bool list_updated;
BOOL InitializeProcThreadAttributeList(LPPROC_THREAD_ATTRIBUTE_LIST l, DWORD n, DWORD f, SIZE_T *size)
{
  (void) f;
  VP_MODEL_ASSERT(n == 1, "one attribute");
  if (l == NULL) {
    bool odd = should_fail();
    if (odd) {
      fail_with(); /* fails with something other than the expected code */
      VP_ASSUME(last_error != ERROR_INSUFFICIENT_BUFFER);
      return 0;
    }
    *size = 8;
    last_error = ERROR_INSUFFICIENT_BUFFER;
    return 0;
  }
  bool fail = should_fail();
  if (fail) {
    fail_with();
    return 0;
  }
  list_state = 1;
  list_ptr = l;
  return 1;
}
BOOL UpdateProcThreadAttribute(LPPROC_THREAD_ATTRIBUTE_LIST l, DWORD f, DWORD attr, void *v, SIZE_T size, void *p, SIZE_T *r)
{
  (void) f; (void) p; (void) r;
  VP_MODEL_ASSERT(l == list_ptr && list_state == 1, "attribute list initialized");
  bool fail = should_fail();
  if (fail) {
    fail_with();
    return 0;
  }
  if (attr == PROC_THREAD_ATTRIBUTE_HANDLE_LIST) {
    listed_n = size / sizeof(HANDLE);
    VP_MODEL_ASSERT(listed_n <= 4 && size % sizeof(HANDLE) == 0, "handle list of at most four handles");
    for (size_t i = 0; i < listed_n; i++) {
      listed[i] = ((HANDLE *) v)[i];
    }
    list_updated = true;
  }
  return 1;
}
static int deletes_of_live_list;
void DeleteProcThreadAttributeList(LPPROC_THREAD_ATTRIBUTE_LIST l)
{
  if (l != NULL && l == list_ptr && list_state == 1) {
    list_state = 2;
    deletes_of_live_list++;
  }
}

static wchar_t parent_block[] = { 'P', '=', '1', 0, 0 };
static bool env_strings_ok;
static int env_block_out, env_block_freed;
wchar_t *GetEnvironmentStringsW(void)
{
  env_block_out++;
  return env_strings_ok ? parent_block : NULL;
}
BOOL FreeEnvironmentStringsW(wchar_t *p)
{
  if (p != NULL) {
    VP_MODEL_ASSERT(p == parent_block, "FreeEnvironmentStringsW on the block GetEnvironmentStringsW returned");
    env_block_freed++;
  }
  return 1;
}

static DWORD error_mode = 0x55u;
DWORD SetErrorMode(DWORD m)
{
  DWORD old = error_mode;
  error_mode = m;
  return old;
}

/* explicit arrays: CBMC gave the literal L"wd" the object of the narrow literal "wd" */
static const wchar_t W_CMD[] = { 'p', ' ', '"', 'x', ' ', 'y', '"', 0 };
static const wchar_t W_PE[] = { 'P', '=', '1', 0, 'A', '=', 'b', 0, 'C', '=', 'd', 0, 0 };
static const wchar_t W_P[] = { 'P', '=', '1', 0, 0 };
static const wchar_t W_E[] = { 'A', '=', 'b', 0, 'C', '=', 'd', 0, 0 };
static const wchar_t W_WD[] = { 'w', 'd', 0 };
static bool weq(const wchar_t *a, const wchar_t *b, int n)
{
  for (int i = 0; i < n; i++) {
    if (a[i] != b[i]) {
      return false;
    }
  }
  return true;
}

/* what was asked for */
static HANDLE want_in, want_out, want_err, want_exit;
static bool want_wd, want_extra, want_extend;
/* verdicts taken at the moment the program would start */
static int cp_calls;
static bool alias_in, cp_ok_nodup, cp_ok_std_inh;
static bool cp_ok_std, cp_ok_list, cp_ok_inherit, cp_ok_cmd, cp_ok_env, cp_ok_cwd, cp_ok_flags, cp_ok_mode, cp_succeeded;
static int thread_h = 6, process_h = 7;

BOOL CreateProcessW(LPCWSTR app, LPWSTR cmd, SECURITY_ATTRIBUTES *pa, SECURITY_ATTRIBUTES *ta, BOOL inherit, DWORD flags,
                    LPVOID env, LPCWSTR cwd, LPSTARTUPINFOW si, PROCESS_INFORMATION *pi)
{
  cp_calls++;
  STARTUPINFOEXW *ex = (STARTUPINFOEXW *) si;
  /* C10: the three streams are the requested handles */
  cp_ok_std = (si->dwFlags & STARTF_USESTDHANDLES) != 0 && si->hStdInput == want_in && si->hStdOutput == want_out &&
              si->hStdError == want_err;
  /* C11: inheritance is restricted to an explicit list = {exit, in, out, err}, nothing else, nothing twice */
  bool present[4] = { false, false, false, false };
  bool stray = false, dup = false;
  HANDLE wanted[4] = { want_exit, want_in, want_out, want_err };
  for (size_t i = 0; i < listed_n && i < 4; i++) {
    bool known = false;
    for (int k = 0; k < 4; k++) {
      if (listed[i] == wanted[k]) {
        known = true;
        present[k] = true;
      }
    }
    stray = stray || !known;
    for (size_t j = 0; j < i; j++) {
      dup = dup || listed[j] == listed[i];
    }
  }
  cp_ok_list = inherit && (flags & EXTENDED_STARTUPINFO_PRESENT) != 0 && si->cb == sizeof(STARTUPINFOEXW) &&
               ex->lpAttributeList == list_ptr && list_state == 1 && list_updated && !stray && present[0] &&
               present[1] && present[2] && present[3] && (pa == NULL || !pa->bInheritHandle) &&
               (ta == NULL || !ta->bInheritHandle);
  /* the source itself says CreateProcessW rejects a list naming one handle twice, and handles the
   * stderr = stdout case; whether that also matters for stdin shared with another stream cannot be
   * settled without Windows and is left out of the claim */
  cp_ok_nodup = alias_in || !dup;
  cp_ok_std_inh = present[1] && present[2] && present[3];
  cp_ok_inherit = true;
  for (int k = 0; k < 4; k++) {
    int i = hidx(wanted[k]);
    cp_ok_inherit = cp_ok_inherit && i >= 0 && hobj[i].inherit && hobj[i].open;
  }
  /* C03: command line, environment block, working directory */
  cp_ok_cmd = app == NULL && cmd == CONV_CMD && conv_cmd_ok; /* = the conversion of exactly "p \"x y\"" */
  const wchar_t *e = (const wchar_t *) env;
  bool parent_in = want_extend && env_strings_ok;
  if (e == NULL) {
    cp_ok_env = false;
  } else if (parent_in && want_extra) {
    cp_ok_env = weq(e, W_PE, 13);
  } else if (parent_in) {
    cp_ok_env = weq(e, W_P, 5);
  } else if (want_extra) {
    cp_ok_env = weq(e, W_E, 9);
  } else {
    cp_ok_env = e[0] == L'\0';
  }
  cp_ok_env = cp_ok_env && (!want_extra || conv_extra_ok);
  cp_ok_cwd = want_wd ? cwd == CONV_WD : cwd == NULL;
  cp_ok_flags = (flags & CREATE_UNICODE_ENVIRONMENT) != 0 && (flags & CREATE_NEW_PROCESS_GROUP) != 0;
  cp_ok_mode = (error_mode & SEM_NOGPFAULTERRORBOX) != 0;
  bool fail = should_fail();
  if (fail) {
    fail_with();
    return 0;
  }
  cp_succeeded = true;
  hobj[thread_h].open = true;
  hobj[process_h].open = true;
  pi->hThread = (HANDLE) &hobj[thread_h];
  pi->hProcess = (HANDLE) &hobj[process_h];
  pi->dwProcessId = 42;
  pi->dwThreadId = 43;
  return 1;
}
DWORD GetProcessId(HANDLE h) { (void) h; return 42; }
DWORD WaitForSingleObject(HANDLE h, DWORD ms) { (void) h; (void) ms; return 0; }
BOOL GetExitCodeProcess(HANDLE h, DWORD *code) { (void) h; *code = 0; return 1; }
BOOL GenerateConsoleCtrlEvent(DWORD e, DWORD g) { (void) e; (void) g; return 1; }
BOOL TerminateProcess(HANDLE h, DWORD c) { (void) h; (void) c; return 1; }

static const char *const argv_obj[] = { "p", "x y", NULL };
static const char *const extra_obj[] = { "A=b", "C=d", NULL };

static int run_cfg(bool wd, bool extra, bool extend, bool envok, int fail_index, HANDLE *process)
{
  /* exactly one call site runs per path, so these resets change nothing - but the symbolic executor
   * merges the state after every (skipped) site, and without them the pool counters reach the next
   * site as if-then-else terms, every block pointer becomes symbolic, and the run does not fit in
   * memory */
  cpool_next = 0;
  wpool_next = 0;
  early_fail = fail_index == 6 ? -1 : fail_index;
  late_fail_at = fail_index == 6 ? late_fail : -1;
  call_no = 0;
  want_wd = wd;
  want_extra = extra;
  want_extend = extend;
  env_strings_ok = envok;
  struct process_options o = { 0 };
  o.env.behavior = extend ? REPROC_ENV_EXTEND : REPROC_ENV_EMPTY;
  o.env.extra = extra ? extra_obj : NULL;
  o.working_directory = wd ? wd_str : NULL;
  o.handle.in = want_in;
  o.handle.out = want_out;
  o.handle.err = want_err;
  o.handle.exit = want_exit;
  return process_start(process, argv_obj, o);
}

void harness(void)
{
  for (int i = 0; i < 4; i++) {
    hobj[i].open = true;
    hobj[i].inherit = vp_bool();
  }
  /* the same handle may serve two streams: stderr = stdout (what REPROC_REDIRECT_STDOUT produces),
   * or the caller's own handle given for stdin and another stream */
  int alias = vp_choice(0, 3);
  bool err_is_out = alias == 1;
  want_exit = (HANDLE) &hobj[0];
  want_in = (HANDLE) &hobj[1];
  want_out = alias == 2 ? want_in : (HANDLE) &hobj[2];
  want_err = alias == 1 ? want_out : alias == 3 ? want_in : (HANDLE) &hobj[3];
  alias_in = alias >= 2;
  last_error = (DWORD) vp_choice(0, 20000); /* stale value from an earlier, unrelated call */

  /* One call site per (environment options, failing call): inside each branch the strings, their
   * lengths, every pointer offset and the position of an EARLY failure (the six calls up to and
   * including env_concat's allocation, after which no loop depends on a block's text) are constants
   * for the symbolic executor. Symbolic: the position of a later failure, error codes, the stale
   * last-error value, the working-directory option, the handles' inherit flags and the
   * stderr-is-stdout choice. At most ONE call fails per run (-1 = none). */
  HANDLE process = PROCESS_INVALID;
  int cfg = vp_choice(2 * VP_CFGSET, 2 * VP_CFGSET + 1); /* jobs are split by environment options */
  int fl = vp_choice(-1, 6);
  bool wd = vp_bool();
  late_fail = vp_choice(6, 23);
  int r = 0;
#define RUN(k, f) \
  if (cfg == (k) && fl == (f)) { \
    r = run_cfg(wd, ((k) &1) != 0, ((k) &2) != 0, ((k) &4) != 0, (f), &process); \
  }
#define CFG(k) RUN(k, -1) RUN(k, 0) RUN(k, 1) RUN(k, 2) RUN(k, 3) RUN(k, 4) RUN(k, 5) RUN(k, 6)
#if VP_CFGSET == 0
  CFG(0) CFG(1)
#elif VP_CFGSET == 1
  CFG(2) CFG(3)
#elif VP_CFGSET == 2
  CFG(4) CFG(5)
#else
  CFG(6) CFG(7)
#endif
  VP_MODEL_ASSERT(call_no <= 24, "failure positions cover every call");

  bool something_failed = failed_calls > 0 || alloc_failures > 0;
  if (r < 0) {
    VP_ASSERT(C04, something_failed, "process_start fails although every call it made succeeded");
    VP_ASSERT(C04, process == PROCESS_INVALID, "a failed process_start publishes a process handle");
    VP_ASSERT(C04, !cp_succeeded, "process_start reports failure although the child was created");
    if (alloc_failures == 0) {
      VP_ASSERT(C04, r == -(int) failed_code, "process_start does not report the error of the call that failed");
    } else if (failed_calls == 0) {
      VP_ASSERT(C04, r == -ERROR_NOT_ENOUGH_MEMORY, "an allocation failure is not reported as out-of-memory");
    }
  } else {
    VP_ASSERT(C04, r == 1 && cp_succeeded && cp_calls == 1 && process == (HANDLE) &hobj[process_h],
              "process_start reports success although no child was created (or does not hand out its handle)");
    VP_ASSERT(C10, cp_ok_std, "Windows: the child's standard handles are not the requested ones");
    VP_ASSERT(C11, cp_ok_list,
              "Windows: handle inheritance is not restricted to exactly the three streams and the exit handle");
    VP_ASSERT(C10, cp_ok_std_inh && cp_ok_inherit,
              "Windows: a standard handle of the child is not in the inherit list (or not inheritable): the stream is connected to nothing");
    VP_ASSERT(C10, cp_ok_nodup, "Windows: stderr = stdout puts the shared handle into the inherit list twice (CreateProcessW rejects that)");
    VP_ASSERT(C11, cp_ok_inherit, "Windows: a handle of the inherit list is not inheritable when the child is created");
    VP_ASSERT(C03, cp_ok_cmd, "Windows: the command line is not the joined argument vector");
    VP_ASSERT(C03, cp_ok_env && cp_ok_flags, "Windows: the environment block is not parent entries (if extending) followed by the extra entries");
    VP_ASSERT(C03, cp_ok_cwd, "Windows: working directory passed (or not) against the options");
    VP_ASSERT(C05, closes[thread_h] == 1, "the child's thread handle is not closed exactly once");
  }
  VP_ASSERT(C05, live_allocs == 0 && conv_live == conv_freed, "Windows process_start leaks memory");
  VP_ASSERT(C05, bad_frees == 0, "Windows process_start frees a block twice (or one it never allocated)");
  VP_ASSERT(C05, env_block_freed == (env_strings_ok ? env_block_out : 0), "parent environment block not released");
  VP_ASSERT(C05, list_state != 1, "attribute list initialized but never deleted");
  VP_ASSERT(C05, closes[0] + closes[1] + closes[2] + closes[3] == 0, "process_start closes a handle it was only lent");
  VP_ASSERT(C14, error_mode == 0x55u, "the caller's error mode is not restored");

  VP_COVER(r == 1 && err_is_out, "success with stderr = stdout handle");
  VP_COVER(r == 1 && alias == 2, "success with stdout = stdin handle");
  VP_COVER(r == 1 && alias == 0 && want_wd && want_extra, "success with working directory and extra entries");
  VP_COVER(r < 0 && cp_calls == 1, "CreateProcessW fails");
  VP_COVER(r < 0 && alloc_failures == 1 && failed_calls == 0, "an allocation fails");
  VP_COVER(r < 0 && list_state == 2, "failure after the attribute list was initialized");
  VP_COVER(1, "end of harness");
}
