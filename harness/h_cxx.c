/* H_cxx (C19, C15 C++ part): the C that cxx/ll2c.py generated from the LLVM IR of the
 * reproc++ wrapper TU (cxx/wrap.cpp, which #includes reproc++/src/reproc.cpp), checked
 * against assertions written over the C header's own reproc_options.
 *   -DVP_CUNIT=1 options_from   2 clone   3 error_code   4 wrapper methods
 *              5 containers     6 enumerators / constants
 * External calls of the C++ code (reproc_* C functions, std::system_category, operator
 * new[] / delete[]) are stubs that record their arguments.
 */
#include "vp.h"

#include <errno.h>
#include <limits.h>
#include <reproc/reproc.h>
#include <stdint.h>
#include <stdio.h>
#include <string.h>

#include "wrap_gen.c" /* generated into the job's work directory on every run */

#ifndef VP_CUNIT
#define VP_CUNIT 1
#endif

/* must mirror cxx/wrap.cpp (any drift shows up as failing assertions) */
struct flat_redirect {
  int type;
  int handle;
  FILE *file;
  const char *path;
};
struct flat_options {
  int env_behavior;
  const char *const *env_extra;
  const char *working_directory;
  struct flat_redirect in, out, err;
  bool parent, discard;
  FILE *file;
  const char *path;
  int stop_action[3];
  int stop_timeout[3];
  int timeout;
  int deadline;
  const uint8_t *input_data;
  size_t input_size;
  bool nonblocking;
};
struct flat_ec {
  int value;
  int is_system;
  int is_generic;
};

/* ---- C-side constants the C++ code links against (defined in reproc.c/error.posix.c) -- */
uint32_t XG_REPROC_SIGKILL = 128 + 9;
uint32_t XG_REPROC_SIGTERM = 128 + 15;
uint32_t XG_REPROC_INFINITE = (uint32_t) -1;
uint32_t XG_REPROC_DEADLINE = (uint32_t) -2;
uint32_t XG_REPROC_EPIPE = (uint32_t) -EPIPE;

/* ---- stubs -------------------------------------------------------------------------- */
static char cat_system, cat_generic, the_handle[2];
char *X__ZNSt3_V215system_categoryEv(void) { return &cat_system; }
char *X__ZNSt3_V216generic_categoryEv(void) { return &cat_generic; }
void ll_unreachable(void) { VP_MODEL_ASSERT(0, "llvm unreachable executed"); }

static int n_new, n_destroy;
static char *destroyed[2];
char *X_reproc_new(void)
{
  char *h = &the_handle[n_new & 1];
  n_new++;
  return h;
}
char *X_reproc_destroy(char *p)
{
  if (n_destroy < 2) {
    destroyed[n_destroy] = p;
  }
  n_destroy++;
  return NULL;
}

static int stub_ret;           /* what the C function "returns" */
static char *got_handle;
static int got_int[2];
static char *got_ptr[2];
static uint64_t got_size;
static int n_calls;
static reproc_options got_options;
static reproc_stop_actions got_stop;

uint32_t X_reproc_start(char *p, char *argv, char *opt)
{
  n_calls++;
  got_handle = p;
  got_ptr[0] = argv;
  got_options = *(reproc_options *) opt;
  return (uint32_t) stub_ret;
}
uint32_t X_reproc_read(char *p, uint32_t stream, char *buf, uint64_t size)
{
  n_calls++;
  got_handle = p;
  got_int[0] = (int) stream;
  got_ptr[0] = buf;
  got_size = size;
  return (uint32_t) stub_ret;
}
uint32_t X_reproc_write(char *p, char *buf, uint64_t size)
{
  n_calls++;
  got_handle = p;
  got_ptr[0] = buf;
  got_size = size;
  return (uint32_t) stub_ret;
}
uint32_t X_reproc_close(char *p, uint32_t stream)
{
  n_calls++;
  got_handle = p;
  got_int[0] = (int) stream;
  return (uint32_t) stub_ret;
}
uint32_t X_reproc_wait(char *p, uint32_t t)
{
  n_calls++;
  got_handle = p;
  got_int[0] = (int) t;
  return (uint32_t) stub_ret;
}
uint32_t X_reproc_terminate(char *p)
{
  n_calls++;
  got_handle = p;
  got_int[0] = 15;
  return (uint32_t) stub_ret;
}
uint32_t X_reproc_kill(char *p)
{
  n_calls++;
  got_handle = p;
  got_int[0] = 9;
  return (uint32_t) stub_ret;
}
uint32_t X_reproc_stop(char *p, char *s)
{
  n_calls++;
  got_handle = p;
  got_stop = *(reproc_stop_actions *) s;
  return (uint32_t) stub_ret;
}
uint32_t X_reproc_pid(char *p)
{
  n_calls++;
  got_handle = p;
  return (uint32_t) stub_ret;
}
static int poll_events[2];
static char *poll_proc[2];
static int poll_interests[2], poll_events_in[2];
uint32_t X_reproc_poll(char *src, uint64_t n, uint32_t t)
{
  n_calls++;
  got_size = n;
  got_int[0] = (int) t;
  reproc_event_source *s = (reproc_event_source *) src;
  for (int i = 0; i < 2; i++) {
    if ((uint64_t) i < n) {
      poll_proc[i] = (char *) s[i].process;
      poll_interests[i] = s[i].interests;
      poll_events_in[i] = s[i].events;
      s[i].events = poll_events[i];
    }
  }
  return (uint32_t) stub_ret;
}

/* ---- operator new[] / delete[]: a pool of fixed slots with canaries ---------------------- */
#define NSLOT 6
#define SLOT 40
static char pool[NSLOT * SLOT];
static uint64_t slot_req[NSLOT];
static bool slot_live[NSLOT];
static int slot_next, n_alloc, n_free;
static unsigned char canary;
/* The first allocation of a container conversion is the array of pointers: it gets a
 * pointer-typed block (CBMC is imprecise about pointers stored in char arrays). */
#define NPTR 5
static char *ptr_block[NPTR];
static char ptr_canary;
static uint64_t ptr_req;
static bool ptr_live, ptr_used;
char *X__Znam(uint64_t n)
{
#if VP_CUNIT == 5
  if (!ptr_used) {
    VP_MODEL_ASSERT(n % 8 == 0 && n / 8 <= NPTR - 1, "pointer array fits its block");
    ptr_used = true;
    ptr_live = true;
    ptr_req = n / 8;
    n_alloc++;
    for (int i = 0; i < NPTR; i++) {
      ptr_block[i] = &ptr_canary;
    }
    return (char *) ptr_block;
  }
#endif
  VP_MODEL_ASSERT(slot_next < NSLOT && n <= SLOT - 1, "allocation fits the pool");
  int s = slot_next++;
  slot_req[s] = n;
  slot_live[s] = true;
  n_alloc++;
  for (int i = 0; i < SLOT; i++) {
    pool[s * SLOT + i] = (char) canary;
  }
  return &pool[s * SLOT];
}
void X__ZdaPv(char *p)
{
  if (p == NULL) {
    return;
  }
  if (p == (char *) ptr_block) {
    VP_ASSERT(C19, ptr_live, "delete[] of the pointer array twice");
    ptr_live = false;
    n_free++;
    return;
  }
  bool found = false;
  for (int s = 0; s < NSLOT; s++) {
    if (p == &pool[s * SLOT]) {
      VP_ASSERT(C19, slot_live[s], "delete[] of a block that is not live (double release)");
      slot_live[s] = false;
      found = true;
    }
  }
  VP_ASSERT(C19, found, "delete[] of a pointer that new[] did not return");
  n_free++;
}
static bool pool_intact(void)
{
  bool ok = true;
  for (int i = 0; i < NPTR; i++) {
    if (ptr_used && (uint64_t) i >= ptr_req) {
      ok = ok && ptr_block[i] == &ptr_canary;
    }
  }
  for (int s = 0; s < NSLOT; s++) {
    for (int i = 0; i < SLOT; i++) {
      if (s < slot_next && (uint64_t) i >= slot_req[s]) {
        ok = ok && pool[s * SLOT + i] == (char) canary;
      }
    }
  }
  return ok;
}

/* ---- helpers --------------------------------------------------------------------------- */
static int objs[8];
static void *sym_ptr(int i) { return vp_bool() ? (void *) &objs[i] : NULL; }

static void sym_flat(struct flat_options *f)
{
  f->env_behavior = vp_choice(INT_MIN, INT_MAX);
  f->env_extra = (const char *const *) sym_ptr(0);
  f->working_directory = (const char *) sym_ptr(1);
  struct flat_redirect *r[3] = { &f->in, &f->out, &f->err };
  for (int i = 0; i < 3; i++) {
    r[i]->type = vp_choice(INT_MIN, INT_MAX);
    r[i]->handle = vp_choice(INT_MIN, INT_MAX);
    r[i]->file = (FILE *) sym_ptr(2 + i);
    r[i]->path = (const char *) sym_ptr(5);
  }
  f->parent = vp_bool();
  f->discard = vp_bool();
  f->file = (FILE *) sym_ptr(6);
  f->path = (const char *) sym_ptr(7);
  for (int i = 0; i < 3; i++) {
    f->stop_action[i] = vp_choice(INT_MIN, INT_MAX);
    f->stop_timeout[i] = vp_choice(INT_MIN, INT_MAX);
  }
  f->timeout = vp_choice(INT_MIN, INT_MAX);
  f->deadline = vp_choice(INT_MIN, INT_MAX);
  f->input_data = (const uint8_t *) sym_ptr(3);
  f->input_size = (size_t) (unsigned) vp_choice(INT_MIN, INT_MAX);
  f->nonblocking = vp_bool();
}

static bool options_match(const reproc_options *o, const struct flat_options *f, bool fork)
{
  return o->working_directory == f->working_directory && (int) o->env.behavior == f->env_behavior &&
         o->env.extra == f->env_extra && (int) o->redirect.in.type == f->in.type &&
         o->redirect.in.handle == f->in.handle && o->redirect.in.file == f->in.file &&
         o->redirect.in.path == f->in.path && (int) o->redirect.out.type == f->out.type &&
         o->redirect.out.handle == f->out.handle && o->redirect.out.file == f->out.file &&
         o->redirect.out.path == f->out.path && (int) o->redirect.err.type == f->err.type &&
         o->redirect.err.handle == f->err.handle && o->redirect.err.file == f->err.file &&
         o->redirect.err.path == f->err.path && o->redirect.parent == f->parent &&
         o->redirect.discard == f->discard && o->redirect.file == f->file && o->redirect.path == f->path &&
         (int) o->stop.first.action == f->stop_action[0] && o->stop.first.timeout == f->stop_timeout[0] &&
         (int) o->stop.second.action == f->stop_action[1] && o->stop.second.timeout == f->stop_timeout[1] &&
         (int) o->stop.third.action == f->stop_action[2] && o->stop.third.timeout == f->stop_timeout[2] &&
         o->deadline == f->deadline && o->input.data == f->input_data && o->input.size == f->input_size &&
         o->nonblocking == f->nonblocking && o->fork == fork;
}

/* the error code a C result must turn into */
static bool ec_matches(const struct flat_ec *e, int r)
{
  if (r >= 0) {
    return e->value == 0;
  }
  if (r == -EPIPE) {
    return e->value == EPIPE && e->is_generic && !e->is_system;
  }
  return e->value == -r && e->is_system && !e->is_generic;
}

#if VP_CUNIT == 5
#ifndef VP_L
#define VP_L 2
#endif
struct vstr {
  const char *p;
  uint64_t n;
};
static int g_which, g_n, g_inspected;
static struct vstr *g_s;
#endif

static void ctor_dtor_checks(void)
{
  VP_ASSERT(C19, n_new >= 1 && got_handle == &the_handle[0], "the C call does not receive the handle reproc_new returned");
  VP_ASSERT(C15, n_destroy == 1 && destroyed[0] == &the_handle[0],
            "the process destructor does not call reproc_destroy exactly once on its handle");
}

void harness(void)
{
  F__GLOBAL__sub_I_wrap_cpp(); /* dynamic initialisers: signal::kill, infinite, ... */
  canary = (unsigned char) vp_byte();

#if VP_CUNIT == 1
  struct flat_options f;
  sym_flat(&f);
  bool fork = vp_bool();
  reproc_options out;
  memset(&out, 0x5a, sizeof out);
  F_vp_options_from((char *) &f, fork, (char *) &out);
  VP_ASSERT(C19, out.working_directory == f.working_directory, "working_directory does not reach the C options");
  VP_ASSERT(C19, (int) out.env.behavior == f.env_behavior && out.env.extra == f.env_extra, "env does not reach the C options");
  VP_ASSERT(C19, out.nonblocking == f.nonblocking, "nonblocking does not reach the same-named C option");
  VP_ASSERT(C19, out.fork == fork, "fork mode does not reach the same-named C option");
  VP_ASSERT(C19, out.deadline == f.deadline, "deadline does not reach the C options");
  VP_ASSERT(C19, out.input.data == f.input_data && out.input.size == f.input_size, "input does not reach the C options");
  VP_ASSERT(C19, options_match(&out, &f, fork), "some field of the C++ options does not reach the same-named C option");
  VP_COVER(fork && !f.nonblocking, "fork without nonblocking");
#endif

#if VP_CUNIT == 2
  struct flat_options f, c;
  sym_flat(&f);
  memset(&c, 0x5a, sizeof c);
  F_vp_clone((char *) &f, (char *) &c);
  VP_ASSERT(C19, c.nonblocking == f.nonblocking, "a copy of options loses nonblocking");
  VP_ASSERT(C19, c.env_behavior == f.env_behavior && c.env_extra == f.env_extra &&
                     c.working_directory == f.working_directory,
            "a copy of options loses env / working_directory");
  VP_ASSERT(C03, c.env_behavior == f.env_behavior && c.env_extra == f.env_extra &&
                     c.working_directory == f.working_directory,
            "reproc++: a copy of options (as made by run) changes environment behaviour, extra entries or working directory");
  VP_ASSERT(C19, c.in.type == f.in.type && c.in.handle == f.in.handle && c.in.file == f.in.file && c.in.path == f.in.path &&
                     c.out.type == f.out.type && c.out.handle == f.out.handle && c.out.file == f.out.file &&
                     c.out.path == f.out.path && c.err.type == f.err.type && c.err.handle == f.err.handle &&
                     c.err.file == f.err.file && c.err.path == f.err.path && c.parent == f.parent &&
                     c.discard == f.discard && c.file == f.file && c.path == f.path,
            "a copy of options loses a redirect field");
  VP_ASSERT(C19, c.stop_action[0] == f.stop_action[0] && c.stop_action[1] == f.stop_action[1] &&
                     c.stop_action[2] == f.stop_action[2] && c.stop_timeout[0] == f.stop_timeout[0] &&
                     c.stop_timeout[1] == f.stop_timeout[1] && c.stop_timeout[2] == f.stop_timeout[2],
            "a copy of options loses the stop actions");
  VP_ASSERT(C19, c.timeout == f.timeout && c.deadline == f.deadline && c.input_data == f.input_data &&
                     c.input_size == f.input_size,
            "a copy of options loses timeout / deadline / input");
  VP_COVER(f.nonblocking, "nonblocking set");
#endif

#if VP_CUNIT == 3
  /* INT_MIN is excluded: C results are errno values negated, and -INT_MIN is undefined
   * in the C++ source itself */
  int r = vp_choice(INT_MIN + 1, INT_MAX);
  struct flat_ec e = { 0x5a5a, 2, 2 };
  F_vp_error_code((uint32_t) r, (char *) &e);
  VP_ASSERT(C19, ec_matches(&e, r), "a C result is not turned into the equivalent error code (or success)");
  VP_COVER(r == -EPIPE, "closed-pipe error");
  VP_COVER(r == -ETIMEDOUT, "timeout error");
#endif

#if VP_CUNIT == 4
  int m = vp_choice(0, 12);
  stub_ret = vp_choice(INT_MIN + 1, INT_MAX);
  struct flat_ec e = { 0x5a5a, 2, 2 };
  struct flat_options f;
  sym_flat(&f);
  int a = vp_choice(INT_MIN, INT_MAX);
  uint64_t sz = (uint64_t) (unsigned) vp_choice(INT_MIN, INT_MAX);
  static uint8_t buf[4];
  static const char *const argv0[] = { "p", NULL };
  int act[3], tmo[3];
  for (int i = 0; i < 3; i++) {
    act[i] = vp_choice(INT_MIN, INT_MAX);
    tmo[i] = vp_choice(INT_MIN, INT_MAX);
  }
  switch (m) {
    case 0: {
      F_vp_m_start((char *) &f, (char *) argv0, (char *) &e);
      VP_ASSERT(C19, n_calls == 1 && got_ptr[0] == (char *) argv0, "start does not pass the argument array to reproc_start");
      VP_ASSERT(C19, options_match(&got_options, &f, false), "start passes different options to reproc_start (or fork set)");
      break;
    }
    case 1: {
      uint8_t first = F_vp_m_fork((char *) &f, (char *) &e);
      VP_ASSERT(C19, n_calls == 1 && got_ptr[0] == NULL, "fork does not call reproc_start without arguments");
      VP_ASSERT(C19, options_match(&got_options, &f, true), "fork does not set the fork option (or changes others)");
      VP_ASSERT(C19, (first != 0) == (stub_ret == 0), "fork does not report the child side exactly when reproc_start returns 0");
      break;
    }
    case 2: {
      uint64_t n = F_vp_m_read((uint32_t) a, (char *) buf, sz, (char *) &e);
      VP_ASSERT(C19, n_calls == 1 && got_int[0] == a && got_ptr[0] == (char *) buf && got_size == sz,
                "read does not pass stream, buffer and size through");
      VP_ASSERT(C19, n == (uint64_t) (int64_t) stub_ret, "read does not return the C result");
      break;
    }
    case 3: {
      uint64_t n = F_vp_m_write((char *) buf, sz, (char *) &e);
      VP_ASSERT(C19, n_calls == 1 && got_ptr[0] == (char *) buf && got_size == sz, "write does not pass buffer and size through");
      VP_ASSERT(C19, n == (uint64_t) (int64_t) stub_ret, "write does not return the C result");
      break;
    }
    case 4:
      F_vp_m_close((uint32_t) a, (char *) &e);
      VP_ASSERT(C19, n_calls == 1 && got_int[0] == a, "close does not pass the stream through");
      break;
    case 5: {
      uint32_t r = F_vp_m_wait((uint32_t) a, (char *) &e);
      VP_ASSERT(C19, n_calls == 1 && got_int[0] == a && (int) r == stub_ret, "wait does not pass the timeout / return the C result");
      break;
    }
    case 6:
      F_vp_m_terminate((char *) &e);
      VP_ASSERT(C19, n_calls == 1 && got_int[0] == 15, "terminate does not call reproc_terminate");
      break;
    case 7:
      F_vp_m_kill((char *) &e);
      VP_ASSERT(C19, n_calls == 1 && got_int[0] == 9, "kill does not call reproc_kill");
      break;
    case 8: {
      uint32_t r = F_vp_m_stop((char *) act, (char *) tmo, (char *) &e);
      VP_ASSERT(C19, n_calls == 1 && (int) r == stub_ret, "stop does not return the C result");
      VP_ASSERT(C19, (int) got_stop.first.action == act[0] && got_stop.first.timeout == tmo[0] &&
                         (int) got_stop.second.action == act[1] && got_stop.second.timeout == tmo[1] &&
                         (int) got_stop.third.action == act[2] && got_stop.third.timeout == tmo[2],
                "stop does not pass the three actions and timeouts through in order");
      break;
    }
    case 9: {
      uint32_t r = F_vp_m_pid((char *) &e);
      VP_ASSERT(C19, n_calls == 1 && (int) r == stub_ret, "pid does not return the C result");
      break;
    }
    case 10: {
      int interests[2] = { act[0], act[1] }, events[2] = { tmo[0], tmo[1] };
      poll_events[0] = act[2];
      poll_events[1] = tmo[2];
      F_vp_m_poll((char *) interests, (char *) events, (uint32_t) a, (char *) &e);
      VP_ASSERT(C19, n_calls == 1 && got_size == 2 && got_int[0] == a, "poll does not pass the number of sources and the timeout");
      VP_ASSERT(C19, poll_interests[0] == act[0] && poll_interests[1] == act[1] && poll_events_in[0] == 0 && poll_events_in[1] == 0,
                "poll does not pass each source's interests (with cleared events)");
      VP_ASSERT(C19, poll_proc[0] == &the_handle[0] && poll_proc[1] == &the_handle[1], "poll does not pass each source's own handle");
      if (stub_ret >= 0) {
        VP_ASSERT(C19, events[0] == act[2] && events[1] == tmo[2], "events are not copied back after a successful poll");
      } else {
        VP_ASSERT(C19, events[0] == tmo[0] && events[1] == tmo[1], "events are overwritten although poll failed");
      }
      VP_ASSERT(C19, n_alloc == 1 && n_free == 1 && pool_intact(), "poll's temporary array is not released exactly once (or overrun)");
      VP_ASSERT(C15, n_destroy == 2, "the sources' process objects are not destroyed exactly once each");
      break;
    }
    case 11: {
      poll_events[0] = tmo[0];
      uint32_t ev = F_vp_m_poll1((uint32_t) act[0], (uint32_t) a, (char *) &e);
      VP_ASSERT(C19, n_calls == 2 && got_size == 1 && got_int[0] == a && poll_interests[0] == act[0] &&
                         poll_proc[0] == &the_handle[0],
                "member poll does not pass handle, interests and timeout");
      VP_ASSERT(C19, got_handle == &the_handle[0],
                "after a member poll (successful or not) the process object no longer owns its handle");
      VP_ASSERT(C19, stub_ret < 0 || (int) ev == tmo[0], "member poll does not return the reported events");
      VP_ASSERT(C15, n_destroy == 1 && destroyed[0] == &the_handle[0], "member poll loses or double-destroys the handle");
      break;
    }
    default:
      VP_ASSUME(0);
  }
  VP_ASSERT(C19, ec_matches(&e, stub_ret), "a wrapper method does not turn the C result into the equivalent error code");
  if (m != 10 && m != 11) {
    ctor_dtor_checks();
  }
  VP_COVER(m == 10 && stub_ret < 0, "failed poll");
  VP_COVER(m == 2 && stub_ret == -EPIPE, "read returning the closed-pipe error");
#endif

#if VP_CUNIT == 5
  /* two strings (or two name/value pairs) of 0..VP_L symbolic bytes */
  static char bytes[4 * (VP_L + 1)];
  static struct vstr s[4];
  for (int i = 0; i < 4; i++) {
    int len = vp_choice(0, VP_L);
    for (int j = 0; j < VP_L; j++) {
      bytes[i * (VP_L + 1) + j] = (char) vp_choice(1, 255);
    }
    s[i].p = &bytes[i * (VP_L + 1)];
    s[i].n = (uint64_t) len;
  }
  int n = vp_choice(0, 2);
  int which = vp_choice(0, 2);
  g_which = which;
  g_n = n;
  g_s = s;
  if (which == 0) {
    struct {
      const struct vstr *b;
      uint64_t n;
    } v = { s, (uint64_t) n };
    F_vp_args_from((char *) &v);
  } else if (which == 1) {
    struct {
      const struct vstr *b; /* pairs are two consecutive strings */
      uint64_t n;
    } v = { s, (uint64_t) n };
    F_vp_env_from((char *) &v);
  } else {
    static const char *const argv0[] = { "p", NULL };
    F_vp_args_borrowed((char *) argv0);
  }
  VP_ASSERT(C19, g_inspected == 1, "the container was not converted");
  VP_ASSERT(C19, pool_intact(), "a converted string or array is written past its allocation");
  VP_ASSERT(C19, n_alloc == n_free, "a new[] of the conversion is not released exactly once");
  VP_ASSERT(C19, which != 2 || n_alloc == 0, "a borrowed argv is copied or released");
  VP_COVER(which == 0 && n == 2, "two arguments");
  VP_COVER(which == 1 && n == 2, "two environment pairs");
#endif

#if VP_CUNIT == 6
  static int out[64];
  uint32_t n = F_vp_enums((char *) out);
  VP_ASSERT(C19, n == 52, "unexpected number of enumerator pairs");
  bool all = true;
  for (int i = 0; i < 26; i++) {
    all = all && out[2 * i] == out[2 * i + 1];
  }
  VP_ASSERT(C19, all, "a C++ enumerator or constant differs from its C counterpart");
#endif
  VP_COVER(1, "end of harness");
}

#if VP_CUNIT == 5
void X_vp_inspect_strv(char *vv)
{
  const char *const *v = (const char *const *) vv;
  g_inspected++;
  if (g_which == 2) {
    return;
  }
  bool ok = true;
  for (int i = 0; i < 2; i++) {
    if (i < g_n) {
      const char *e = v[i];
      ok = ok && e != NULL;
      if (e == NULL) {
        continue;
      }
      if (g_which == 0) {
        for (int j = 0; j <= VP_L; j++) {
          if ((uint64_t) j < g_s[i].n) {
            ok = ok && e[j] == g_s[i].p[j];
          } else if ((uint64_t) j == g_s[i].n) {
            ok = ok && e[j] == '\0';
          }
        }
      } else {
        uint64_t a = g_s[2 * i].n, b = g_s[2 * i + 1].n;
        for (int j = 0; j <= 2 * VP_L + 1; j++) {
          uint64_t k = (uint64_t) j;
          if (k < a) {
            ok = ok && e[j] == g_s[2 * i].p[j];
          } else if (k == a) {
            ok = ok && e[j] == '=';
          } else if (k < a + 1 + b) {
            ok = ok && e[j] == g_s[2 * i + 1].p[k - a - 1];
          } else if (k == a + 1 + b) {
            ok = ok && e[j] == '\0';
          }
        }
      }
    }
  }
  ok = ok && v[g_n] == NULL;
  VP_ASSERT(C19, ok, "converted array is not the exact NULL-terminated array of NUL-terminated strings");
}
#else
void X_vp_inspect_strv(char *v) { (void) v; }
#endif
