/* H_win (C18, C01): leaf kernels of reproc/src/process.windows.c compiled on Linux with
 * -D_WIN32 against the stand-in /verif/model/win/windows.h.
 *   -DVP_WUNIT=1  argv_join / argument_escape / argument_escaped_size
 *   -DVP_WUNIT=2  env_join / env_join_size / env_concat
 *   -DVP_WUNIT=3  process_wait (exit code mapping)
 *
 * Heap buffers of symbolic size are served from a fixed arena whose tail is painted with a
 * symbolic canary (DESIGN 2.7): a write past the requested size has to equal an
 * unconstrained byte to go unnoticed, so the solver exposes it.
 */
#include "vp.h"

#include <stddef.h>
#include <stdint.h>
#include <stdlib.h>
#include <string.h>
#include <wchar.h>

#ifndef VP_WUNIT
#define VP_WUNIT 1
#endif
#ifndef VP_NARG
#define VP_NARG 2 /* arguments */
#endif
#ifndef VP_L
#define VP_L 2 /* bytes per argument */
#endif

/* ---- arena allocator ---------------------------------------------------------- */
#ifndef ARENA_ELEMS
#define ARENA_ELEMS 16
#endif
#define ARENA_BYTES (4 * ARENA_ELEMS)
/* one arena per element type, so that no object is accessed through two types */
static char arena_c[ARENA_BYTES];
static wchar_t arena_w[ARENA_ELEMS];
static bool arena_wide;  /* which arena serves the live allocation */
static size_t arena_req; /* ELEMENTS requested by the (single) live allocation */
static int arena_allocs, arena_frees;
static unsigned char canary[8];
static wchar_t wcanary[2];

static void *arena_calloc(size_t n, size_t sz)
{
  arena_allocs++;
  arena_req = n;
  arena_wide = sz == sizeof(wchar_t);
  VP_MODEL_ASSERT(sz == 1 || sz == sizeof(wchar_t), "element size is char or wchar_t");
  if (arena_wide) {
    VP_MODEL_ASSERT(n <= ARENA_ELEMS - 2, "arena large enough for the request");
    for (size_t i = 0; i < ARENA_ELEMS; i++) {
      arena_w[i] = i < n ? 0 : wcanary[i % 2];
    }
    return arena_w;
  }
  VP_MODEL_ASSERT(n <= ARENA_BYTES - 8, "arena large enough for the request");
  for (size_t i = 0; i < ARENA_BYTES; i++) {
    arena_c[i] = i < n ? 0 : (char) canary[i % 8];
  }
  return arena_c;
}
static void arena_free(void *p)
{
  if (p != NULL) {
    arena_frees++;
  }
}
static bool arena_intact(void)
{
  bool ok = true;
  if (arena_wide) {
    for (size_t i = 0; i < ARENA_ELEMS; i++) {
      if (i >= arena_req) {
        ok = ok && arena_w[i] == wcanary[i % 2];
      }
    }
  } else {
    for (size_t i = 0; i < ARENA_BYTES; i++) {
      if (i >= arena_req) {
        ok = ok && arena_c[i] == (char) canary[i % 8];
      }
    }
  }
  return ok;
}
#define calloc(n, sz) arena_calloc(n, sz)
#define malloc(n) arena_calloc(n, 1)
#define free(p) arena_free(p)

/* simple loop versions of the wide string functions (CBMC has no models for them) */
static size_t vp_wcslen(const wchar_t *s)
{
  size_t n = 0;
  while (s[n] != L'\0') {
    n++;
  }
  return n;
}
static wchar_t *vp_wcscpy(wchar_t *d, const wchar_t *s)
{
  size_t i = 0;
  do {
    d[i] = s[i];
  } while (s[i++] != L'\0');
  return d;
}
static wchar_t *vp_wcschr(const wchar_t *s, wchar_t c)
{
  size_t i = 0;
  while (s[i] != c) {
    if (s[i] == L'\0') {
      return NULL;
    }
    i++;
  }
  return (wchar_t *) &s[i];
}
#define wcslen(s) vp_wcslen(s)
#define wcscpy(d, s) vp_wcscpy(d, s)
#define wcschr(s, c) vp_wcschr(s, c)

#include "process.windows.c"

/* ---- Win32 stubs ------------------------------------------------------------------ */
static DWORD last_error;
void SetLastError(DWORD e) { last_error = e; }
DWORD GetLastError(void) { return last_error; }
static DWORD wait_result, exit_code;
static BOOL exit_ok;
DWORD WaitForSingleObject(HANDLE h, DWORD ms)
{
  (void) h;
  (void) ms;
  return wait_result;
}
BOOL GetExitCodeProcess(HANDLE h, DWORD *code)
{
  (void) h;
  *code = exit_code;
  return exit_ok;
}
const int REPROC_SIGTERM = 128 + 15;
const int REPROC_SIGKILL = 128 + 9;
const HANDLE HANDLE_INVALID = INVALID_HANDLE_VALUE;
HANDLE handle_destroy(HANDLE h)
{
  (void) h;
  return HANDLE_INVALID;
}
wchar_t *utf16_from_utf8(const char *s, int n)
{
  (void) s;
  (void) n;
  return NULL;
}
BOOL SetHandleInformation(HANDLE h, DWORD m, DWORD f) { (void) h; (void) m; (void) f; return 0; }
BOOL InitializeProcThreadAttributeList(LPPROC_THREAD_ATTRIBUTE_LIST l, DWORD n, DWORD f, SIZE_T *s) { (void) l; (void) n; (void) f; (void) s; return 0; }
BOOL UpdateProcThreadAttribute(LPPROC_THREAD_ATTRIBUTE_LIST l, DWORD f, DWORD a, void *v, SIZE_T s, void *p, SIZE_T *r) { (void) l; (void) f; (void) a; (void) v; (void) s; (void) p; (void) r; return 0; }
void DeleteProcThreadAttributeList(LPPROC_THREAD_ATTRIBUTE_LIST l) { (void) l; }
wchar_t *GetEnvironmentStringsW(void) { return NULL; }
BOOL FreeEnvironmentStringsW(wchar_t *p) { (void) p; return 1; }
BOOL CreateProcessW(LPCWSTR a, LPWSTR c, SECURITY_ATTRIBUTES *pa, SECURITY_ATTRIBUTES *ta, BOOL i, DWORD f, LPVOID e, LPCWSTR d, LPSTARTUPINFOW si, PROCESS_INFORMATION *pi) { (void) a; (void) c; (void) pa; (void) ta; (void) i; (void) f; (void) e; (void) d; (void) si; (void) pi; return 0; }
DWORD SetErrorMode(DWORD m) { return m; }
/* unit 4 records what the signalling calls receive */
static int two_procs[2];
static DWORD pid_of[2];
static int ctrl_calls, term_calls;
static DWORD ctrl_event, ctrl_group, term_code;
static HANDLE term_handle;
static BOOL signal_ok;
DWORD GetProcessId(HANDLE h) { return h == (HANDLE) &two_procs[0] ? pid_of[0] : h == (HANDLE) &two_procs[1] ? pid_of[1] : 0; }
BOOL GenerateConsoleCtrlEvent(DWORD e, DWORD g)
{
  ctrl_calls++;
  ctrl_event = e;
  ctrl_group = g;
  return signal_ok;
}
BOOL TerminateProcess(HANDLE h, DWORD c)
{
  term_calls++;
  term_handle = h;
  term_code = c;
  return signal_ok;
}

#define STRIDE (VP_L + 1)
#define JMAX (VP_NARG * (2 * VP_L + 3) + 2)

#if VP_WUNIT == 1
static char store[VP_NARG * STRIDE];
static const char *av[VP_NARG + 1];

void harness(void)
{
  for (int i = 0; i < 8; i++) {
    canary[i] = (unsigned char) vp_byte();
  }
  int n = vp_choice(1, VP_NARG);
  int len[VP_NARG];
  for (int i = 0; i < VP_NARG; i++) {
    len[i] = vp_choice(0, VP_L);
    for (int j = 0; j < VP_L; j++) {
      char c = (char) vp_choice(1, 255); /* every byte except NUL: space, tab, \n, \v, quote, backslash ... */
      store[i * STRIDE + j] = j < len[i] ? c : '\0';
    }
    store[i * STRIDE + VP_L] = '\0';
    av[i] = i < n ? &store[i * STRIDE] : NULL;
  }
  av[VP_NARG] = NULL;

  /* size computed == bytes written, per argument */
  for (int i = 0; i < VP_NARG; i++) {
    if (i < n) {
      char tmp[2 * VP_L + 4];
      for (int j = 0; j < (int) sizeof tmp; j++) {
        tmp[j] = 0;
      }
      size_t want = argument_escaped_size(av[i]);
      size_t got = argument_escape(tmp, av[i]);
      VP_ASSERT(C18, want == got, "argument_escaped_size differs from the bytes argument_escape writes");
      VP_ASSERT(C18, got <= (size_t) 2 * VP_L + 2, "escaped argument longer than 2*len+2");
    }
  }

  char *cmd = argv_join(av);
  VP_ASSERT(C18, cmd != NULL, "argv_join fails without an allocation failure");
  VP_ASSERT(C18, arena_intact(), "argv_join writes past the buffer it computed");
  VP_ASSERT(C18, arena_req >= 1 && cmd[arena_req - 1] == '\0', "command line terminator is not the last allocated byte");
  bool nul_inside = false;
  for (size_t i = 0; i < JMAX; i++) {
    if (i + 1 < arena_req) {
      nul_inside = nul_inside || cmd[i] == '\0';
    }
  }
  VP_ASSERT(C18, !nul_inside, "command line is shorter than the buffer computed for it");

  /* ---- split by the documented rules (post-2008 CRT / CommandLineToArgvW):
   * arguments are separated by spaces/tabs outside quotes; 2n backslashes + quote ->
   * n backslashes and the quote toggles quoting; 2n+1 backslashes + quote -> n
   * backslashes and a literal quote; "" inside quotes -> literal quote; backslashes not
   * followed by a quote are literal. One pass, written independently of reproc. ---- */
#define OMAX (2 * VP_L + 4)
  char out[VP_NARG + 1][OMAX];
  int outlen[VP_NARG + 1];
  int argc = 0, l = 0;
  size_t nb = 0;
  bool in_arg = false, inq = false, skip = false, done = false;
  for (size_t i = 0; i < JMAX; i++) {
    if (done || i >= arena_req) {
      continue;
    }
    if (skip) {
      skip = false;
      continue;
    }
    char c = cmd[i];
    if (!in_arg) {
      if (c == ' ' || c == '\t') {
        continue;
      }
      if (c == '\0') {
        done = true;
        continue;
      }
      in_arg = true;
      inq = false;
      nb = 0;
      l = 0;
    }
    if (c == '\\') {
      nb++;
      continue;
    }
    size_t emit = c == '"' ? nb / 2 : nb;
    for (size_t t = 0; t < OMAX; t++) {
      if (t < emit && l < OMAX && argc <= VP_NARG) {
        out[argc][l++] = '\\';
      }
    }
    if (c == '"') {
      if (nb % 2 == 1) {
        if (l < OMAX && argc <= VP_NARG) {
          out[argc][l++] = '"';
        }
      } else if (inq && i + 1 < arena_req && cmd[i + 1] == '"') {
        if (l < OMAX && argc <= VP_NARG) {
          out[argc][l++] = '"';
        }
        skip = true;
      } else {
        inq = !inq;
      }
      nb = 0;
      continue;
    }
    nb = 0;
    if (c == '\0' || (!inq && (c == ' ' || c == '\t'))) {
      if (argc <= VP_NARG) {
        outlen[argc] = l;
      }
      argc++;
      in_arg = false;
      if (c == '\0') {
        done = true;
      }
      continue;
    }
    if (l < OMAX && argc <= VP_NARG) {
      out[argc][l++] = c;
    }
  }
  VP_ASSERT(C18, argc == n, "command line splits into a different number of arguments");
  VP_ASSERT(C03, argc == n, "Windows: the child receives a different number of arguments than were passed");
  for (int a = 0; a < VP_NARG; a++) {
    if (a < n && a < argc) {
      bool same = outlen[a] == len[a];
      for (int j = 0; j < VP_L; j++) {
        if (j < len[a] && j < outlen[a]) {
          same = same && out[a][j] == store[a * STRIDE + j];
        }
      }
      VP_ASSERT(C18, same, "an argument does not survive the round trip through the command line");
      VP_ASSERT(C03, same, "Windows: an argument does not reach the child byte for byte");
    }
  }
  free(cmd);
  VP_COVER(n == VP_NARG && len[0] == 0, "empty first argument");
  VP_COVER(n >= 1 && len[0] == VP_L && store[VP_L - 1] == '\\' && store[0] == ' ', "space and trailing backslash");
  VP_COVER(n >= 1 && len[0] >= 1 && store[0] == '"', "embedded quote");
  VP_COVER(1, "end of harness");
}
#endif

#if VP_WUNIT == 2
#define NE 2
static char estore[NE * STRIDE];
static const char *ev[NE + 1];
static wchar_t wa[NE * STRIDE + 1], wb[NE * STRIDE + 1];

/* build a NUL-separated, double-NUL-terminated wide block of k entries */
static int wblock(wchar_t *w, int k, int *total)
{
  int pos = 0;
  for (int e = 0; e < NE; e++) {
    int l = vp_choice(1, VP_L);
    for (int j = 0; j < VP_L; j++) {
      wchar_t c = (wchar_t) vp_choice(1, 0xffff);
      if (e < k && j < l) {
        w[pos++] = c;
      }
    }
    if (e < k) {
      w[pos++] = L'\0';
    }
  }
  w[pos] = L'\0';
  *total = pos + 1;
  return k;
}

void harness(void)
{
  for (int i = 0; i < 8; i++) {
    canary[i] = (unsigned char) vp_byte();
  }
  wcanary[0] = (wchar_t) vp_choice(0, 0xffff);
  wcanary[1] = (wchar_t) vp_choice(0, 0xffff);
  /* env_join over char strings */
  int n = vp_choice(0, NE);
  int len[NE];
  size_t expect = 1;
  for (int i = 0; i < NE; i++) {
    len[i] = vp_choice(0, VP_L);
    for (int j = 0; j < VP_L; j++) {
      char c = (char) vp_choice(1, 255);
      estore[i * STRIDE + j] = j < len[i] ? c : '\0';
    }
    estore[i * STRIDE + VP_L] = '\0';
    ev[i] = i < n ? &estore[i * STRIDE] : NULL;
    if (i < n) {
      expect += (size_t) len[i] + 1;
    }
  }
  ev[NE] = NULL;
  VP_ASSERT(C18, env_join_size(ev) == expect, "environment block size is not the sum of entry sizes plus the final NUL");
  char *blk = env_join(ev);
  VP_ASSERT(C18, blk != NULL && arena_req == expect, "environment block is not allocated with exactly the computed size");
  VP_ASSERT(C18, arena_intact(), "env_join writes past the buffer it computed");
  size_t pos = 0;
  bool ok = true;
  for (int i = 0; i < NE; i++) {
    if (i < n) {
      for (int j = 0; j <= VP_L; j++) {
        if (j <= len[i]) {
          ok = ok && blk[pos + (size_t) j] == estore[i * STRIDE + j];
        }
      }
      pos += (size_t) len[i] + 1;
    }
  }
  ok = ok && blk[pos] == '\0' && pos + 1 == expect;
  VP_ASSERT(C18, ok, "environment block is not the entries in order, each NUL-terminated, closed by a final NUL");
  free(blk);

  /* env_concat over wide blocks (parent block a, extra block b; either may be absent) */
  int ta = 0, tb = 0;
  int ka = vp_choice(-1, NE), kb = vp_choice(-1, NE);
  wblock(wa, ka < 0 ? 0 : ka, &ta);
  wblock(wb, kb < 0 ? 0 : kb, &tb);
  wchar_t *r = env_concat(ka < 0 ? NULL : wa, kb < 0 ? NULL : wb);
  size_t na = ka < 0 ? 0 : (size_t) ta - 1, nb2 = kb < 0 ? 0 : (size_t) tb - 1;
  VP_ASSERT(C18, r != NULL && arena_wide && arena_req == na + nb2 + 1,
            "concatenated environment block is not allocated with exactly the needed size");
  VP_ASSERT(C18, arena_intact(), "env_concat writes past the buffer it computed");
  bool okc = true;
  for (size_t i = 0; i < NE * STRIDE; i++) {
    if (i < na) {
      okc = okc && r[i] == wa[i];
    }
    if (i < nb2) {
      okc = okc && r[na + i] == wb[i];
    }
  }
  okc = okc && r[na + nb2] == L'\0';
  VP_ASSERT(C18, okc, "concatenated block is not the parent's entries followed by the extra entries and a final NUL");
  free(r);
  VP_COVER(n == NE && len[0] == 0, "empty extra entry");
  VP_COVER(ka < 0 && kb == NE, "no parent block, two extra entries");
  VP_COVER(ka == NE && kb == 0, "parent entries, empty extra block");
  VP_COVER(1, "end of harness");
}
#endif

#if VP_WUNIT == 3
void harness(void)
{
  unsigned hi = (unsigned) vp_choice(0, 0xffff), lo = (unsigned) vp_choice(0, 0xffff);
  exit_code = (hi << 16) | lo; /* any 32-bit exit code */
  wait_result = vp_bool() ? WAIT_FAILED : 0;
  exit_ok = vp_bool();
  last_error = (DWORD) vp_choice(1, 20000);
  int dummy;
  int r = process_wait((HANDLE) &dummy);
  if (wait_result == WAIT_FAILED || !exit_ok) {
    VP_ASSERT(C01, r == -(int) last_error, "failed wait does not report the system error");
  } else if (exit_code == 0xC000013Au) {
    VP_ASSERT(C01, r == REPROC_SIGTERM, "CTRL-BREAK exit code is not mapped to SIGTERM");
  } else {
    VP_ASSERT(C01, r == (int) exit_code, "exit code is not returned unchanged");
  }
  VP_COVER(exit_code == 0xC000013Au && exit_ok && wait_result == 0, "CTRL-BREAK code");
  VP_COVER(exit_code == 255 && exit_ok && wait_result == 0, "exit code 255");
  VP_COVER(1, "end of harness");
}
#endif

#if VP_WUNIT == 4
/* process_terminate / process_kill: the signal goes to the given child and to nothing else */
void harness(void)
{
  pid_of[0] = (DWORD) vp_choice(4, 1 << 30); /* pids are non-zero multiples of 4 on Windows; 0 would mean "every */
  pid_of[1] = (DWORD) vp_choice(4, 1 << 30); /* process sharing the console" to GenerateConsoleCtrlEvent       */
  VP_ASSUME(pid_of[0] != pid_of[1]);
  int which = vp_choice(0, 1);
  signal_ok = vp_bool();
  last_error = (DWORD) vp_choice(1, 20000);
  bool kill = vp_bool();
  HANDLE h = (HANDLE) &two_procs[which];
  int r = kill ? process_kill(h) : process_terminate(h);
  if (kill) {
    VP_ASSERT(C06, term_calls == 1 && ctrl_calls == 0 && term_handle == h, "kill does not terminate exactly the given child");
    VP_ASSERT(C01, term_code == 137, "a killed child is not given exit status 137");
  } else {
    VP_ASSERT(C06, ctrl_calls == 1 && term_calls == 0 && ctrl_group == pid_of[which] && ctrl_event == CTRL_BREAK_EVENT,
              "terminate does not send CTRL-BREAK to exactly the given child's process group");
  }
  VP_ASSERT(C06, r == (signal_ok ? 0 : -(int) last_error), "the result of the signalling call is not reported");
  VP_COVER(kill && signal_ok, "kill succeeds");
  VP_COVER(!kill && !signal_ok, "terminate fails");
  VP_COVER(1, "end of harness");
}
#endif
