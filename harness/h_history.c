/* H_history: new -> [call before start] -> start (valid | rejected options) -> a
 * canonical prefix that reaches every abstract state of a started handle (any subset of
 * streams closed, time passing, child signalled or not, status known or not) -> K symbolic
 * API calls with symbolic arguments (including misuse: NULL handle, NULL / size-0
 * buffers, invalid stream values, zero sources) [+ VP_K2 calls from the cheap subset
 * {pid, terminate, kill, read, write, close}] -> [second start] -> destroy, against the
 * symbolic child of the POSIX model.
 *
 * Oracle: a small reference state machine {not started, running, exited} plus which of
 * the three stream pipes are still open, giving the error class every call must return
 * (C14); the first status returned stays the status (C01); descriptors, memory and the
 * child are accounted for at the end (C05); kill/waitpid targets are checked inside the
 * model (C06). CBMC's memory-safety checks are active for all repository code (C14).
 *
 *   -DVP_K=n calls after start, -DVP_F=n faults after start, -DVP_SF=1 start may fail
 */
#include "reproc_all.h"
#include "vp_nocb.h"
#include "h_common.h"

#ifndef VP_K
#define VP_K 3
#endif
#ifndef VP_F
#define VP_F 0
#endif
#ifndef VP_K2
#define VP_K2 1
#endif

static const char *const argv_plain[] = { "p", NULL };

enum { S_NOT_STARTED, S_RUNNING, S_EXITED };

static int ref_state = S_NOT_STARTED;
static bool ref_open[3];     /* is the pipe of stream in/out/err still open in the parent */
static int ref_status = -1;  /* the status once known */
static int g_sigs_at_exit;   /* signal log length when the status became known */
static uint8_t g_buf[4];
static const uint8_t g_wbuf[3] = { 'a', 'b', 'c' };

static bool is_status(int r) { return r >= 0; }

static void note_status(int r)
{
  if (ref_state == S_RUNNING && is_status(r)) {
    ref_state = S_EXITED;
    ref_status = r;
    g_sigs_at_exit = vp_nsigs;
    VP_ASSERT(C01, vp_c_state[0] == VP_C_REAPED && vp_c_reaps[0] == 1,
              "a status is returned although the child has not been reaped exactly once");
    VP_ASSERT(C01, r == vp_status_decode(vp_child_status(0)),
              "returned status is not the child's exit code / 128+signal");
  }
}

/* one API call with symbolic arguments, checked against the reference state machine */
static void one_call(reproc_t *p, bool full)
{
#if defined(VP_WHICH)
  int which = full ? VP_WHICH : vp_choice(0, 9); /* jobs are split by the first call */
#else
  int which = vp_choice(0, 9);
#endif
  /* cheap subset: no wait / stop / poll */
  VP_ASSUME(full || (which != 1 && which != 4 && which != 8));
  bool null_handle = vp_choice(0, 7) == 0;
  reproc_t *h = null_handle ? NULL : p;
  int polls0 = vp_poll_calls, waits0 = vp_waitpid_calls, kills0 = vp_kill_calls;
  int r;
  switch (which) {
    case 0: { /* pid */
      r = reproc_pid(h);
      if (null_handle || ref_state == S_NOT_STARTED) {
        VP_ASSERT(C14, r == REPROC_EINVAL, "pid on a null / not started handle is not rejected");
      } else {
        VP_ASSERT(C14, r == vp_c_pid[0], "pid of a started handle is not the child's pid");
      }
      break;
    }
    case 1: { /* wait */
      int k = vp_choice(-2, 1);
      int fin = vp_choice(0, 1 << 20);
      int tmo = k < 0 ? k : k == 0 ? 0 : fin;
      r = reproc_wait(h, tmo);
      if (null_handle || ref_state == S_NOT_STARTED) {
        VP_ASSERT(C14, r == REPROC_EINVAL, "wait on a null / not started handle is not rejected");
      } else if (ref_state == S_EXITED) {
        VP_ASSERT(C01, r == ref_status, "a later wait returns a different status");
        VP_ASSERT(C14, r == ref_status, "a later wait returns a different status");
        VP_ASSERT(C01, vp_poll_calls == polls0 && vp_waitpid_calls == waits0,
                  "a later wait touches the OS again");
      } else {
        VP_ASSERT(C14, is_status(r) || r == REPROC_ETIMEDOUT || (VP_F > 0 && r < 0),
                  "wait on a running child returns neither a status nor the timeout error");
        VP_ASSERT(C01, !is_status(r) || vp_c_state[0] == VP_C_REAPED,
                  "wait returns a status while the child is still running");
        note_status(r);
      }
      break;
    }
    case 2:
    case 3: { /* terminate / kill */
      r = which == 2 ? reproc_terminate(h) : reproc_kill(h);
      if (null_handle || ref_state == S_NOT_STARTED) {
        VP_ASSERT(C14, r == REPROC_EINVAL, "terminate/kill on a null / not started handle is not rejected");
        VP_ASSERT(C06, vp_kill_calls == kills0, "a signal is sent for a handle without child");
      } else if (ref_state == S_EXITED) {
        VP_ASSERT(C06, r == 0 && vp_kill_calls == kills0,
                  "terminate/kill after a successful wait sends a signal or fails");
        VP_ASSERT(C14, r == 0, "terminate/kill after a successful wait does not succeed");
      } else {
        VP_ASSERT(C14, r == 0 || (VP_F > 0 && r < 0), "terminate/kill of a running child fails");
        VP_ASSERT(C06, vp_kill_calls == kills0 + 1, "terminate/kill of a running child sends no (or several) signals");
      }
      break;
    }
    case 4: { /* stop */
      reproc_stop_actions sa;
      sa.first.action = (REPROC_STOP) vp_choice(0, 4);
      sa.first.timeout = vp_choice(-2, 1 << 20);
      sa.second.action = (REPROC_STOP) vp_choice(0, 3);
      sa.second.timeout = vp_choice(-2, 1 << 20);
      sa.third.action = REPROC_STOP_NOOP;
      sa.third.timeout = 0;
      r = reproc_stop(h, sa);
      if (null_handle || ref_state == S_NOT_STARTED) {
        VP_ASSERT(C14, r == REPROC_EINVAL, "stop on a null / not started handle is not rejected");
        VP_ASSERT(C06, vp_kill_calls == kills0, "a signal is sent for a handle without child");
      } else if (ref_state == S_EXITED) {
        VP_ASSERT(C06, vp_kill_calls == kills0, "stop after a successful wait sends a signal");
        /* an out-of-range first action is an error even then; otherwise the status */
        VP_ASSERT(C01, r == ref_status || r == REPROC_EINVAL, "stop after a successful wait returns a different status");
      } else {
        VP_ASSERT(C01, !is_status(r) || vp_c_state[0] == VP_C_REAPED,
                  "stop returns a status while the child is still running");
        note_status(r);
      }
      break;
    }
    case 5: { /* read */
      int stream = vp_choice(-1, 3);
      bool nullbuf = vp_choice(0, 5) == 0;
      size_t size = (size_t) vp_choice(0, 3);
      g_buf[3] = 0x5a;
      r = reproc_read(h, (REPROC_STREAM) stream, nullbuf ? NULL : g_buf, size);
      bool bad = null_handle || nullbuf || (stream != REPROC_STREAM_OUT && stream != REPROC_STREAM_ERR);
      if (bad) {
        VP_ASSERT(C14, r == REPROC_EINVAL, "read with a null handle / null buffer / invalid stream is not rejected");
      } else if (!ref_open[stream]) {
        VP_ASSERT(C14, r == REPROC_EPIPE, "read on a closed or non-piped stream does not return the closed-pipe error");
      } else {
        VP_ASSERT(C14, (r >= 0 && (size_t) r <= size) || r == REPROC_EPIPE || r == REPROC_EWOULDBLOCK ||
                           (VP_F > 0 && r < 0),
                  "read returns something other than a count, closed-pipe or would-block");
        if (r == REPROC_EPIPE) {
          ref_open[stream] = false;
        }
      }
      VP_ASSERT(C14, g_buf[3] == 0x5a, "read wrote past the buffer it was given");
      break;
    }
    case 6: { /* write */
      bool nullbuf = vp_choice(0, 3) == 0;
      size_t size = (size_t) vp_choice(0, 3);
      r = reproc_write(h, nullbuf ? NULL : g_wbuf, size);
      if (null_handle) {
        VP_ASSERT(C14, r == REPROC_EINVAL, "write with a null handle is not rejected");
      } else if (nullbuf) {
        VP_ASSERT(C14, size == 0 ? r == 0 : r == REPROC_EINVAL, "write with a null buffer: 0 for size 0, rejected otherwise");
      } else if (!ref_open[0]) {
        VP_ASSERT(C14, r == REPROC_EPIPE, "write on a closed or non-piped stdin does not return the closed-pipe error");
      } else {
        VP_ASSERT(C14, (r >= 0 && (size_t) r <= size) || r == REPROC_EPIPE || r == REPROC_EWOULDBLOCK ||
                           (VP_F > 0 && r < 0),
                  "write returns something other than a count, closed-pipe or would-block");
        if (r == REPROC_EPIPE) {
          ref_open[0] = false;
        }
      }
      break;
    }
    case 7: { /* close */
      int stream = vp_choice(-1, 3);
      r = reproc_close(h, (REPROC_STREAM) stream);
      if (null_handle || stream < 0 || stream > 2) {
        VP_ASSERT(C14, r == REPROC_EINVAL, "close with a null handle / invalid stream is not rejected");
      } else {
        VP_ASSERT(C14, r == 0, "closing a stream (again) does not succeed");
        ref_open[stream] = false;
      }
      break;
    }
    case 8: { /* poll */
      int nsrc = vp_choice(0, 1);
      bool nullsrc = vp_choice(0, 5) == 0;
      reproc_event_source src = { h, vp_choice(0, 31), 0x7777 };
      int k = vp_choice(-1, 1);
      int fin = vp_choice(0, 1 << 20);
      int tmo = k < 0 ? k : k == 0 ? 0 : fin;
      r = reproc_poll(nullsrc ? NULL : &src, (size_t) nsrc, tmo);
      if (nullsrc || nsrc == 0) {
        VP_ASSERT(C14, r == REPROC_EINVAL, "poll without sources is not rejected");
      } else if (null_handle) {
        VP_ASSERT(C14, r == REPROC_EPIPE || (VP_F > 0 && r < 0),
                  "poll over only empty sources does not return the closed-pipe error");
      } else {
        VP_ASSERT(C14, r == 0 || r == 1 || r == REPROC_EPIPE || (VP_F > 0 && r < 0),
                  "poll of one source returns something other than 0, 1 or the closed-pipe error");
        VP_ASSERT(C14, r != 0 || src.events == 0, "poll returns 0 but reports events");
      }
      break;
    }
    default: { /* strerror */
      int e = vp_choice(INT_MIN, INT_MAX);
      const char *s = reproc_strerror(e);
      VP_ASSERT(C14, s != NULL, "strerror returns null");
      break;
    }
  }
}

void harness(void)
{
  vp_std_setup();
  struct vp_snap snap0;
  vp_snapshot_table(&snap0);
  vp_hang_allowed = true; /* timing is decided by H_stop / H_wait / H_poll */

  reproc_t *dn = reproc_destroy(NULL);
  VP_ASSERT(C14, dn == NULL, "destroy(NULL) does not return null");
  reproc_t *p = reproc_new();
  VP_ASSUME(p != NULL);
  VP_ASSERT(C05, vp_table_equals(&snap0), "new touches descriptors");

  /* start: valid or rejected (conflicting options); failing starts are H_start's */
  int kind = vp_choice(0, 1);
  reproc_options o = { 0 };
#ifdef VP_ERR_PIPE
  o.redirect.err.type = REPROC_REDIRECT_PIPE;
#endif
  o.nonblocking = vp_bool();
  o.deadline = vp_choice(0, 1 << 20);
  if (kind == 1) {
    o.redirect.parent = true;
    o.redirect.discard = true;
    /* a call on a handle that was never started */
    int r0 = reproc_start(p, argv_plain, o);
    VP_ASSERT(C14, r0 == REPROC_EINVAL && p->status == STATUS_NOT_STARTED, "rejected options start the handle");
    one_call(p, true);
    VP_ASSERT(C14, p->status == STATUS_NOT_STARTED, "a call on a not started handle changes its state");
    reproc_t *d0 = reproc_destroy(p);
    VP_ASSERT(C15, d0 == NULL, "destroy does not return null");
    VP_ASSERT(C05, vp_table_equals(&snap0) && vp_live_allocs == 0, "never started handle: destroy leaves something behind");
    VP_ASSERT(C14, vp_nchild == 0, "a child exists although the handle was never started");
    VP_COVER(1, "call on a never started handle");
    return;
  }
  int r = reproc_start(p, argv_plain, o);
  VP_ASSUME(r > 0);
  ref_state = S_RUNNING;
  ref_open[0] = true;
  ref_open[1] = true;
  ref_open[2] = o.redirect.err.type == REPROC_REDIRECT_PIPE;
  vp_exec_done();
  VP_ASSERT(C14, p->status == STATUS_IN_PROGRESS, "handle is not running after a successful start");

  /* canonical prefix: any subset of streams closed, time passes, optionally a signal,
   * optionally the status already collected */
  for (int s = 0; s < 3; s++) {
    if (vp_bool()) {
      int rc = reproc_close(p, (REPROC_STREAM) s);
      VP_ASSERT(C14, rc == 0, "close fails");
      ref_open[s] = false;
    }
  }
  vp_T += vp_choice(0, 1 << 20);
  int sg = vp_choice(0, 2);
  if (sg == 1) {
    int rt = reproc_terminate(p);
    VP_ASSERT(C14, rt == 0, "terminate of a running child fails");
  } else if (sg == 2) {
    int rk = reproc_kill(p);
    VP_ASSERT(C14, rk == 0, "kill of a running child fails");
  }
  vp_T += vp_choice(0, 1 << 20);
  if (vp_bool()) {
    int rw = reproc_wait(p, 0);
    VP_ASSERT(C14, is_status(rw) || rw == REPROC_ETIMEDOUT, "wait(0) returns neither a status nor the timeout error");
    note_status(rw);
  }

  vp_faults_left = VP_F;
  for (int i = 0; i < VP_K + VP_K2; i++) {
    vp_T += vp_choice(0, 1 << 20);
    one_call(p, i < VP_K);
    VP_ASSERT(C14, ref_state == S_NOT_STARTED ? p->status == STATUS_NOT_STARTED
              : ref_state == S_RUNNING      ? p->status == STATUS_IN_PROGRESS
                                            : p->status == ref_status,
              "handle state differs from the documented life cycle");
  }

  /* a second start of a handle that is (or was) started, or of no handle, is rejected */
  if (vp_bool()) {
    bool nh = vp_bool();
    VP_ASSUME(nh || ref_state != S_NOT_STARTED);
    reproc_options o2 = { 0 };
    int calls0 = vp_calls_total;
    int r2 = reproc_start(nh ? NULL : p, argv_plain, o2);
    VP_ASSERT(C14, r2 == REPROC_EINVAL && vp_calls_total == calls0,
              "starting a null / already started handle is not rejected up front");
  }

  int reaps_before = vp_c_reaps[0];
  bool was_running = ref_state == S_RUNNING;
  reproc_t *d1 = reproc_destroy(p);
  VP_ASSERT(C15, d1 == NULL, "destroy does not return null");
  VP_ASSERT(C05, vp_table_equals(&snap0), "descriptors differ after destroy (leak, or a foreign descriptor closed)");
  VP_ASSERT(C05, vp_live_allocs == 0, "memory is not released exactly once");
  VP_ASSERT(C05, vp_c_reaps[0] <= 1, "child reaped more than once");
  VP_ASSERT(C01, vp_c_reaps[0] <= 1, "child reaped more than once");
  VP_ASSERT(C05, ref_state != S_EXITED || (vp_c_state[0] == VP_C_REAPED && vp_c_reaps[0] == reaps_before),
            "a successfully waited child is not reaped exactly once");
  VP_ASSERT(C15, !was_running || vp_faults_left < VP_F || vp_c_state[0] == VP_C_REAPED,
            "destroy of a running child with the default policy returns before the child is reaped");

  VP_COVER(ref_state == S_EXITED && ref_status >= 128, "history ends with a signal status");
  VP_COVER(ref_state == S_RUNNING, "destroy of a running child");
  VP_COVER(ref_state == S_EXITED && vp_nsigs > 0, "child stopped by a signal then waited");
  VP_COVER(1, "end of harness");
}
