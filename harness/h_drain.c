/* H_drain / H_run (C16): reproc_drain and reproc_run_ex / reproc_run against the POSIX model
 * with child I/O (VP_IO): the child writes symbolic bytes to stdout/stderr in any
 * interleaving, closes streams and exits at solver-chosen moments; the sinks are logging
 * stubs that may return a symbolic non-zero value at a symbolic call index.
 *   -DVP_MODE=0 drain on a handle from the real start   -DVP_MODE=1 run_ex / run
 */
#include "reproc_all.h"
#include "vp_nocb.h"
#include "h_common.h"

#ifndef VP_MODE
#define VP_MODE 0
#endif
#ifndef VP_S
#define VP_S 3
#endif
#ifndef VP_ERRMODE
#define VP_ERRMODE 1 /* 0 parent, 1 own pipe, 2 stdout */
#endif
#define NLOG 8
#if VP_IO
#define N_OUT vp_c_n_out[0]
#define N_ERR vp_c_n_err[0]
#define SENT_OUT(i) vp_c_sent_out[i]
#define SENT_ERR(i) vp_c_sent_err[i]
#else /* silent child: streams only close (when it exits) */
#define N_OUT 0
#define N_ERR 0
#define SENT_OUT(i) 0
#define SENT_ERR(i) 0
#endif

static const char *const argv_plain[] = { "p", NULL };

struct call {
  int sink; /* 0 = out sink, 1 = err sink */
  int tag;
  size_t size;
  uint8_t b[2];
};
static struct call calls[NLOG];
static int ncalls;
static int fail_at, fail_val;
static bool roles_done;
static int g_errmode;

static int pick_parent_end(int nth_read_end, bool want_write)
{
  /* the handle is internal to reproc_run_ex: find its pipe ends in the descriptor table
   * (stdin: the only write end; read ends in ascending order: stdout, [stderr], exit) */
  int seen = 0;
  for (int fd = 0; fd < VP_NFD; fd++) {
    if (vp_fd_open[fd] && vp_fd_own[fd] == VP_OWN_LIB) {
      int k = vp_of_kind[vp_fd_ofd[fd]];
      if (want_write && k == VP_K_PIPE_W) {
        return fd;
      }
      if (!want_write && k == VP_K_PIPE_R) {
        if (seen == nth_read_end) {
          return fd;
        }
        seen++;
      }
    }
  }
  return -1;
}

static int sink(int which, REPROC_STREAM stream, const uint8_t *buffer, size_t size)
{
#if VP_MODE == 1
  if (!roles_done) {
    /* first sink call of reproc_run_ex: the child has been started by now */
    roles_done = true;
    vp_exec_done();
#if VP_IO
    vp_child_roles(0, pick_parent_end(0, true), pick_parent_end(0, false),
                   g_errmode == 1 ? pick_parent_end(1, false) : -1, g_errmode == 2, VP_S);
#endif
  }
#endif
  int idx = ncalls;
  for (int i = 0; i < NLOG; i++) {
    if (i == idx) {
      calls[i].sink = which;
      calls[i].tag = (int) stream;
      calls[i].size = size;
      calls[i].b[0] = size > 0 ? buffer[0] : 0;
      calls[i].b[1] = size > 1 ? buffer[1] : 0;
    }
  }
  ncalls++;
  return idx == fail_at ? fail_val : 0;
}
static int sink_out(REPROC_STREAM s, const uint8_t *b, size_t n, void *ctx)
{
  (void) ctx;
  return sink(0, s, b, n);
}
static int sink_err(REPROC_STREAM s, const uint8_t *b, size_t n, void *ctx)
{
  (void) ctx;
  return sink(1, s, b, n);
}

/* protocol checks common to drain and run */
static void check_log(int r, bool drained_to_end)
{
  VP_ASSERT(C16, ncalls < 1 || (calls[0].sink == 0 && calls[0].tag == REPROC_STREAM_IN && calls[0].size == 0),
            "drain does not first call the stdout sink with an empty buffer tagged as the input stream");
  VP_ASSERT(C16, ncalls < 2 || (calls[1].sink == 1 && calls[1].tag == REPROC_STREAM_IN && calls[1].size == 0),
            "drain does not then call the stderr sink with an empty buffer tagged as the input stream");
  int got_out = 0, got_err = 0, zero_out = 0, zero_err = 0;
  bool order = true, tags = true;
  for (int i = 2; i < NLOG; i++) {
    if (i >= ncalls) {
      continue;
    }
    struct call *c = &calls[i];
    tags = tags && ((c->tag == REPROC_STREAM_OUT && c->sink == 0) || (c->tag == REPROC_STREAM_ERR && c->sink == 1));
    if (c->tag == REPROC_STREAM_OUT) {
      if (c->size == 0) {
        zero_out++;
      }
      for (size_t k = 0; k < 2; k++) {
        if (k < c->size) {
          order = order && got_out + (int) k < N_OUT && c->b[k] == SENT_OUT(got_out + k);
        }
      }
      got_out += (int) c->size;
    } else if (c->tag == REPROC_STREAM_ERR) {
      if (c->size == 0) {
        zero_err++;
      }
      for (size_t k = 0; k < 2; k++) {
        if (k < c->size) {
          order = order && got_err + (int) k < N_ERR && c->b[k] == SENT_ERR(got_err + k);
        }
      }
      got_err += (int) c->size;
    }
  }
  VP_ASSERT(C16, tags, "a chunk is passed to the wrong sink or with the wrong stream tag");
  VP_ASSERT(C16, order, "chunks passed to a sink are not the bytes the child wrote to that stream, in order");
  VP_ASSERT(C16, zero_out <= 1 && zero_err <= 1, "a stream's sink is told more than once that the stream closed");
  if (fail_at >= 0 && fail_at < ncalls) {
    VP_ASSERT(C16, ncalls == fail_at + 1, "a sink returned non-zero but drain went on calling sinks");
    VP_ASSERT(C16, VP_MODE == 1 ? (fail_val < 0 ? r == fail_val : true) : r == fail_val,
              "the non-zero sink result is not what drain returns");
  } else if (drained_to_end) {
    VP_ASSERT(C16, got_out == N_OUT && (g_errmode != 1 || got_err == N_ERR),
              "drain reports completion although output of the child was not delivered");
    VP_ASSERT(C16, zero_out == 1 && (g_errmode != 1 || zero_err == 1),
              "drain reports completion without telling each sink once that its stream closed");
  }
}

void harness(void)
{
  vp_std_setup();
  struct vp_snap snap0;
  vp_snapshot_table(&snap0);
  g_errmode = VP_ERRMODE;
  reproc_options o = { 0 };
  o.redirect.err.type = g_errmode == 0 ? REPROC_REDIRECT_PARENT : g_errmode == 1 ? REPROC_REDIRECT_PIPE : REPROC_REDIRECT_STDOUT;
  o.deadline = vp_choice(0, 1 << 20);
  fail_at = vp_choice(-1, NLOG - 1);
  fail_val = vp_choice(INT_MIN, INT_MAX);
  VP_ASSUME(fail_val != 0);
  reproc_sink so = { sink_out, NULL }, se = { sink_err, NULL };

#if VP_MODE == 0
  reproc_t *p = reproc_new();
  VP_ASSUME(p != NULL);
  int r0 = reproc_start(p, argv_plain, o);
  VP_ASSUME(r0 > 0);
  vp_exec_done();
#if VP_IO
  vp_child_roles(0, p->pipe.in, p->pipe.out, p->pipe.err, g_errmode == 2, VP_S);
#endif
  vp_hang_allowed = o.deadline == 0; /* without deadline a silent child may keep drain waiting */
  int r = reproc_drain(p, so, se);
  VP_ASSERT(C16, ncalls <= NLOG, "more sink calls than the log holds");
  check_log(r, r == 0);
  if (r == 0) {
    VP_ASSERT(C16, p->pipe.out == PIPE_INVALID && p->pipe.err == PIPE_INVALID,
              "drain returns 0 although an output stream is still open");
  }
  VP_ASSERT(C16, !(fail_at < 0 || fail_at >= ncalls) || r == 0 || r == REPROC_ETIMEDOUT,
            "drain fails without a sink failing or the deadline expiring");
  VP_ASSERT(C16, r != REPROC_ETIMEDOUT || (fail_at >= 0 && fail_at < ncalls) ||
                     (o.deadline != 0 && vp_T >= p->deadline),
            "drain reports a timeout although the deadline has not expired");
  /* an expired deadline is reported before anything else: drain cannot complete at or after it */
  VP_ASSERT(C16, !(fail_at < 0 || fail_at >= ncalls) || o.deadline == 0 || r != 0 || vp_T < p->deadline,
            "drain goes on at or after the deadline instead of reporting the timeout");
  int rnull = reproc_drain(NULL, so, se);
  VP_ASSERT(C16, rnull == REPROC_EINVAL, "drain(NULL) is not rejected");
  VP_COVER(r == 0 && ncalls >= 5, "both streams drained to the end");
  VP_COVER(r == REPROC_ETIMEDOUT, "deadline expires during drain");
  VP_COVER(fail_at >= 2 && fail_at < ncalls && r == fail_val, "a sink fails in the middle");
  VP_COVER(r == 0 && ncalls >= 3 && calls[2].size == 2, "a two-byte chunk");
#else
  int api = vp_choice(0, 2); /* run_ex, run_ex with fork (rejected), run */
  o.fork = api == 1;
  int sh = vp_choice(0, 2);
  if (api == 2) {
    o.redirect.err.type = REPROC_REDIRECT_DEFAULT;
    o.redirect.discard = sh == 1;
    o.redirect.path = sh == 2 ? "o" : NULL;
  }
#ifndef VP_F
#define VP_F 1
#endif
  vp_faults_left = vp_choice(0, VP_F);
  int f0 = vp_faults_left;
  vp_hang_allowed = true; /* default stop policy waits for the child; timing is C07/C15 */
  int r = api == 2 ? reproc_run(argv_plain, o) : reproc_run_ex(api == 1 ? NULL : argv_plain, o, so, se);
  if (api == 1) {
    VP_ASSERT(C16, r == REPROC_EINVAL && vp_calls_total == 0, "run with the fork option is not rejected up front");
  } else {
    VP_ASSERT(C16, vp_table_equals(&snap0), "run leaves descriptors behind (the handle is not destroyed on some path)");
    VP_ASSERT(C05, vp_table_equals(&snap0), "run leaves descriptors behind");
    VP_ASSERT(C16, vp_live_allocs == 0, "run leaks memory");
    VP_ASSERT(C05, vp_live_allocs == 0, "run leaks memory");
    VP_ASSERT(C16, vp_nchild == 0 || vp_c_state[0] == VP_C_REAPED || vp_faults_left < f0,
              "run returns while its child is still unreaped although nothing failed");
    VP_ASSERT(C16, r < 0 || vp_nchild == 0 || (vp_c_state[0] == VP_C_REAPED && r == vp_status_decode(vp_child_status(0))),
              "run returns something other than the child's exit status");
    bool child_failed = vp_nchild > 0 && vp_c_start_errno[0] > 0; /* e.g. the program does not exist */
    VP_ASSERT(C16, r >= 0 || vp_faults_left < f0 || child_failed || (fail_at >= 0 && fail_at < ncalls) ||
                       r == REPROC_ETIMEDOUT,
              "run fails although nothing failed");
    VP_ASSERT(C16, !child_failed || r == -vp_c_start_errno[0], "run does not return the error the child reported");
    if (api == 0) {
      check_log(r, r >= 0 && vp_faults_left == f0);
    } else {
      /* reproc_run: 'parent' exactly when none of discard / file / path is set */
      /* with the parent's streams nothing is opened and only the exit pipe and the two error
       * pipes are created */
      VP_ASSERT(C16, r < 0 || vp_faults_left < f0 || (sh == 0) == (vp_calls_open == 0 && vp_calls_pipe == 3),
                "run does not default to the parent's streams exactly when no discard/file/path is given");
    }
  }
  VP_COVER(api == 0 && r >= 0 && ncalls >= 3, "run_ex drains and returns the exit status");
  VP_COVER(api == 2 && r >= 0 && sh == 0, "run with the parent's streams");
#if VP_F > 0
  VP_COVER(api == 0 && r < 0 && vp_faults_left < f0, "run_ex with an injected failure");
#endif
#endif
  VP_COVER(1, "end of harness");
}
