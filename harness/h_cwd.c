/* H_cwd (C03): path_is_relative and path_prepend_cwd from process.posix.c, with
 * CWD_BUF_SIZE_INCREMENT scaled from 4096 to 4 in a scratch copy of the file (the runner
 * checks that exactly one line changes), so that buffer growth happens for short paths.
 * Symbolic working directory (<= 10 bytes, leading '/', any bytes incl. a trailing '/'),
 * symbolic program path (<= 3 bytes), getcwd / calloc / realloc may fail.
 * Heap blocks live in a fixed arena with a symbolic canary behind the requested size.
 */
#include "vp_model.h"
#include <errno.h>

#ifndef VP_CWDLEN
#define VP_CWDLEN 10
#endif
#define ARENA 32
static char arena[ARENA];
static size_t arena_req;
static bool arena_live;
static int arena_allocs, arena_frees;
static unsigned char canary[4];

static void paint(size_t from)
{
  for (size_t i = 0; i < ARENA; i++) {
    if (i >= from) {
      arena[i] = (char) canary[i % 4];
    }
  }
}
static void *arena_calloc(size_t n, size_t sz)
{
  if (vp_faults_left > 0 && vp_bool()) {
    vp_faults_left--;
    errno = ENOMEM;
    return NULL;
  }
  VP_MODEL_ASSERT(!arena_live && n * sz <= ARENA - 4, "arena: one live block that fits");
  arena_req = n * sz;
  for (size_t i = 0; i < ARENA; i++) {
    arena[i] = 0;
  }
  paint(arena_req);
  arena_live = true;
  arena_allocs++;
  return arena;
}
static void *arena_realloc(void *p, size_t n)
{
  if (vp_faults_left > 0 && vp_bool()) {
    vp_faults_left--;
    errno = ENOMEM;
    return NULL;
  }
  VP_MODEL_ASSERT(p == (void *) arena && arena_live && n <= ARENA - 4, "arena: realloc of the live block");
  /* bytes gained are indeterminate */
  for (size_t i = 0; i < ARENA; i++) {
    if (i >= arena_req && i < n) {
      arena[i] = (char) vp_byte();
    }
  }
  arena_req = n;
  paint(arena_req);
  return arena;
}
static void arena_free(void *p)
{
  if (p != NULL) {
    VP_ASSERT(C03, p == (void *) arena && arena_live, "free of something that is not the live block");
    arena_live = false;
    arena_frees++;
  }
}
static bool arena_intact(void)
{
  bool ok = true;
  for (size_t i = 0; i < ARENA; i++) {
    if (i >= arena_req) {
      ok = ok && arena[i] == (char) canary[i % 4];
    }
  }
  return ok;
}

#undef calloc
#undef realloc
#undef free
#define calloc(a, b) arena_calloc(a, b)
#define realloc(a, b) arena_realloc(a, b)
#define free(a) arena_free(a)
#include "process.posix.c"
#undef calloc
#undef realloc
#undef free
#include "vp_nocb.h"

const int HANDLE_INVALID = -1;
const int PIPE_INVALID = -1;
int handle_cloexec(int h, bool e) { (void) h; (void) e; return 0; }
int handle_destroy(int h) { (void) h; return -1; }
int pipe_init(int *r, int *w) { (void) r; (void) w; return -1; }
int pipe_destroy(int p) { (void) p; return -1; }
char **strv_concat(char *const *a, const char *const *b) { (void) a; (void) b; return NULL; }
char **strv_free(char **l) { (void) l; return NULL; }

static char cwd_store[VP_CWDLEN + 1];
static char path_store[4];

void harness(void)
{
  vp_init();
  for (int i = 0; i < 4; i++) {
    canary[i] = (unsigned char) vp_byte();
  }
  int cl = vp_choice(1, VP_CWDLEN);
  cwd_store[0] = '/';
  for (int i = 1; i < VP_CWDLEN; i++) {
    char c = (char) vp_choice(1, 255);
    cwd_store[i] = i < cl ? c : '\0';
  }
  cwd_store[VP_CWDLEN] = '\0';
  vp_cwd = cwd_store;
  int pl = vp_choice(0, 3);
  for (int i = 0; i < 3; i++) {
    char c = (char) vp_choice(1, 255);
    path_store[i] = i < pl ? c : '\0';
  }
  path_store[3] = '\0';

  /* path_is_relative: non-empty, not starting with '/', with a '/' somewhere */
  bool has_slash = false;
  for (int i = 1; i < 3; i++) {
    has_slash = has_slash || (i < pl && path_store[i] == '/');
  }
  bool want_rel = pl > 0 && path_store[0] != '/' && has_slash;
  VP_ASSERT(C03, path_is_relative(path_store) == want_rel,
            "a program name is classified as relative path (or not) against the documentation");

  vp_faults_left = vp_choice(0, 2);
  int f0 = vp_faults_left;
  char *r = path_prepend_cwd(path_store);
  if (r == NULL) {
    VP_ASSERT(C03, vp_faults_left < f0, "path_prepend_cwd fails without any call failing");
    VP_ASSERT(C03, !arena_live, "the buffer is not released when path_prepend_cwd fails");
    VP_ASSERT(C05, !arena_live, "the buffer is not released when path_prepend_cwd fails");
  } else {
    VP_ASSERT(C03, arena_intact(), "path_prepend_cwd writes past the end of its buffer");
    bool slash = cwd_store[cl - 1] != '/';
    size_t total = (size_t) cl + (slash ? 1 : 0) + (size_t) pl;
    VP_ASSERT(C03, total + 1 <= arena_req, "result (with terminator) does not fit the buffer");
    bool ok = true;
    for (int i = 0; i < VP_CWDLEN; i++) {
      if (i < cl) {
        ok = ok && r[i] == cwd_store[i];
      }
    }
    if (slash) {
      ok = ok && r[cl] == '/';
    }
    for (int i = 0; i < 3; i++) {
      if (i < pl) {
        ok = ok && r[cl + (slash ? 1 : 0) + i] == path_store[i];
      }
    }
    ok = ok && r[total] == '\0';
    VP_ASSERT(C03, ok, "result is not cwd + '/' (if missing) + path, byte for byte, NUL-terminated");
    arena_free(r);
  }
  VP_ASSERT(C05, arena_allocs == arena_frees, "path_prepend_cwd leaks or double frees");
  VP_COVER(r != NULL && cl == VP_CWDLEN && pl == 3, "longest cwd and path (two buffer growths)");
  VP_COVER(r != NULL && cwd_store[cl - 1] == '/', "cwd already ends in a slash");
  VP_COVER(r == NULL && arena_allocs == 1, "failure after the first allocation");
  VP_COVER(r != NULL && cl == 1, "cwd is the root directory");
  VP_COVER(1, "end of harness");
}
