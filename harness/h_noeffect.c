/* H_noeffect (C13): the real reproc_start on option records that the documentation
 * forbids (or whose redirect type is out of range): it must return the invalid-argument
 * error; for documented conflicts it must do so before creating any pipe, file or process
 * (no call into the operating system model at all, no allocation) and leave the handle
 * untouched; for out-of-range type values (not in the property's list) only the error and
 * a clean descriptor table are required.
 */
#include "reproc_all.h"
#include "vp_nocb.h"
#include "h_common.h"
#include "doc_options.h"

static const char path_obj[4][2] = { "a", "b", "c", "d" };
static const uint8_t input_obj[2] = { 'x', 'y' };
static const char *const argv_empty[] = { NULL };
static const char *const argv_prog[] = { "p", NULL };

static FILE *sym_file(int i) { return vp_bool() ? (FILE *) &vp_user_files[i & 1] : NULL; }
static const char *sym_path(int i) { return vp_bool() ? path_obj[i] : NULL; }

static reproc_redirect sym_redirect(int i)
{
  reproc_redirect r;
  r.type = (REPROC_REDIRECT) vp_choice(-2, 9);
  r.handle = vp_choice(0, 5);
  r.file = sym_file(i);
  r.path = sym_path(i);
  return r;
}

void harness(void)
{
  vp_std_setup();
  /* the caller's descriptors behind its FILE objects and handles */
  vp_add_fd(3, VP_K_USER, O_RDWR, VP_OWN_USER, 0, false);
  vp_add_fd(4, VP_K_USER, O_RDWR, VP_OWN_USER, 1, false);
  vp_user_file_fd[0] = 3;
  vp_user_file_fd[1] = 4;
  reproc_options o = { 0 };
  o.redirect.in = sym_redirect(0);
  o.redirect.out = sym_redirect(1);
  o.redirect.err = sym_redirect(2);
  o.redirect.parent = vp_bool();
  o.redirect.discard = vp_bool();
  o.redirect.file = sym_file(3);
  o.redirect.path = sym_path(3);
  o.input.data = vp_bool() ? input_obj : NULL;
  o.input.size = (size_t) vp_choice(0, 2);
  o.fork = vp_bool();
  int av = vp_choice(0, 2);
  const char *const *argv = av == 0 ? NULL : av == 1 ? argv_empty : argv_prog;

  bool in_range = doc_type_in_range(o.redirect.in) && doc_type_in_range(o.redirect.out) &&
                  doc_type_in_range(o.redirect.err);
  struct doc_result d = doc_options(&o, argv);
  VP_ASSUME(!d.valid || !in_range);

  reproc_t *p = reproc_new();
  VP_ASSUME(p != NULL);
  struct vp_snap snap;
  vp_snapshot_table(&snap);
  int calls0 = vp_calls_total;
  long allocs0 = vp_alloc_calls;

  int r = reproc_start(p, argv, o);

  VP_ASSERT(C13, r == REPROC_EINVAL, "a forbidden option record is not rejected with the invalid-argument error");
  VP_ASSERT(C13, p->status == STATUS_NOT_STARTED && p->handle == PROCESS_INVALID && p->pipe.in == PIPE_INVALID &&
                     p->pipe.out == PIPE_INVALID && p->pipe.err == PIPE_INVALID && p->pipe.exit == PIPE_INVALID,
            "a rejected start leaves traces in the handle");
  VP_ASSERT(C13, vp_table_equals(&snap) && vp_nchild == 0, "a rejected start leaves descriptors or a process behind");
  if (!d.valid) {
    VP_ASSERT(C13, vp_calls_total == calls0 && vp_alloc_calls == allocs0,
              "a documented conflict is detected only after a pipe, file, process or allocation was made");
  }
  VP_COVER(!d.valid && o.redirect.in.type == REPROC_REDIRECT_STDOUT, "stdout type on stdin");
  VP_COVER(d.valid && !in_range, "out-of-range type with otherwise valid options");
  VP_COVER(!d.valid && o.input.data != NULL, "input with non-pipe stdin or other conflict");
  VP_COVER(1, "end of harness");
}
