/* H_io (C02, C17, C09-part): a handle started by the real reproc_start; the child
 * performs up to VP_S I/O actions chosen by the solver (write a byte to stdout / stderr,
 * close stdout / stderr / stdin, read a byte from stdin) at solver-chosen moments between
 * and during the parent's calls, and may die at any time; the parent performs VP_R calls
 * from {read(stream, size 0..3), write(0..3 symbolic bytes), close(stream)}.
 *
 * Oracle: every byte returned on a stream is the next byte the child wrote to it (merged
 * order when stderr shares stdout's pipe); the closed-stream error comes only when all of
 * the stream's data was delivered and the child end is gone, or after the parent closed
 * it, and then always; the bytes the child reads from stdin are exactly the accepted
 * prefixes of the writes, in order; with the nonblocking option no call ever waits.
 */
#include "reproc_all.h"
#include "vp_nocb.h"
#include "h_common.h"

#ifndef VP_R
#define VP_R 3
#endif
#ifndef VP_S
#define VP_S 3
#endif
#ifndef VP_ERRMODE
#define VP_ERRMODE -1 /* 0 parent, 1 own pipe, 2 stdout; -1 symbolic */
#endif

static const char *const argv_plain[] = { "p", NULL };

static bool open_s[3];    /* reference: stream pipe still open in the parent */
static int rcv[3];        /* bytes received so far on out (1) / err (2) */
static uint8_t acc[3 * VP_R + 1];
static int acc_n;
static bool cov[7];

static bool child_end_gone(int pipe, bool read_end)
{
  if (pipe < 0) {
    return true;
  }
  return read_end ? !vp_pp_cr[VP_PC(pipe, 0)] : !vp_pp_cw[VP_PC(pipe, 0)];
}

void harness(void)
{
  vp_std_setup();
  reproc_options o = { 0 };
  int errmode = VP_ERRMODE < 0 ? vp_choice(0, 2) : VP_ERRMODE;
  o.redirect.err.type = errmode == 0 ? REPROC_REDIRECT_PARENT
                        : errmode == 1 ? REPROC_REDIRECT_PIPE
                                       : REPROC_REDIRECT_STDOUT;
  o.nonblocking = vp_bool();
  reproc_t *p = reproc_new();
  VP_ASSUME(p != NULL);
  int r0 = reproc_start(p, argv_plain, o);
  VP_ASSUME(r0 > 0);
  vp_exec_done();
  vp_child_roles(0, p->pipe.in, p->pipe.out, p->pipe.err, errmode == 2, VP_S);
  int pin = vp_c_pipe_in[0], pout = vp_c_pipe_out[0], perr = vp_c_pipe_err[0];
  open_s[0] = open_s[1] = true;
  open_s[2] = errmode == 1;
  /* blocking calls may wait for a child that never acts again: that is the child's
   * doing (C17 second sentence); with the nonblocking option nothing may wait */
  vp_hang_allowed = !o.nonblocking;
#ifdef VP_F
  /* injected failures of read()/write() themselves (EINTR included): the call may return
   * that error, but the stream must stay usable and no byte may be lost or duplicated */
  vp_faults_left = VP_F;
  vp_eintr_on = true;
#else
#define VP_F 0
#endif

  for (int it = 0; it < VP_R; it++) {
    int op = vp_choice(0, 2);
    vp_blocked = false;
    if (op == 0) {
      /* ---- read ---- */
      int s = vp_choice(1, 2);
      size_t size = (size_t) vp_choice(0, 3);
      uint8_t buf[5] = { 0xc3, 0xc3, 0xc3, 0xc3, 0xc3 };
      int pp = s == 1 ? pout : perr;
      bool data_before = pp >= 0 && vp_pp_len[pp] > 0;
      int r = reproc_read(p, (REPROC_STREAM) s, buf, size);
      const uint8_t *sent = s == 1 ? &vp_c_sent_out[0] : &vp_c_sent_err[0];
      int nsent = s == 1 ? vp_c_n_out[0] : vp_c_n_err[0];
      if (!open_s[s]) {
        VP_ASSERT(C02, r == REPROC_EPIPE, "a closed or non-piped stream does not keep returning the closed-stream error");
      } else if (r > 0) {
        VP_ASSERT(C02, (size_t) r <= size, "read returns more bytes than asked for");
        bool same = true;
        for (int i = 0; i < 3; i++) {
          if (i < r) {
            same = same && rcv[s] + i < nsent && buf[i] == sent[rcv[s] + i];
          }
        }
        VP_ASSERT(C02, same, "bytes returned by read are not the next bytes the child wrote to that stream");
        bool tail = true;
        for (int i = 0; i < 5; i++) {
          if (i >= r) {
            tail = tail && buf[i] == 0xc3;
          }
        }
        VP_ASSERT(C02, tail, "read stores bytes beyond the count it returns");
        rcv[s] += r;
      } else if (r == 0) {
        VP_ASSERT(C02, size == 0, "read returns 0 for a non-empty buffer");
      } else if (r == REPROC_EPIPE) {
        VP_ASSERT(C02, rcv[s] == nsent, "closed-stream error before all of the stream's data was delivered");
        VP_ASSERT(C02, child_end_gone(pp, false), "closed-stream error while the child still has the stream open");
        open_s[s] = false;
      } else if (VP_F > 0 && vp_faults_left < VP_F && r != REPROC_EWOULDBLOCK) {
        /* the injected failure was reported; the stream must stay open (checked by what
         * later reads return) */
      } else {
        VP_ASSERT(C17, r == REPROC_EWOULDBLOCK && o.nonblocking,
                  "read fails with something other than closed-stream / would-block");
        VP_ASSERT(C02, r == REPROC_EWOULDBLOCK && o.nonblocking && !data_before,
                  "would-block although data was pending (or in blocking mode)");
      }
      VP_ASSERT(C17, !o.nonblocking || !vp_blocked, "nonblocking read waited for the child");
      VP_ASSERT(C17, o.nonblocking || !vp_blocked || !data_before,
                "blocking read waited although data was already pending");
      cov[0] = cov[0] || (r == 2 && s == 1 && errmode == 2);
      cov[1] = cov[1] || (r == REPROC_EPIPE && open_s[s] == false && nsent > 0 && s == 2);
      cov[2] = cov[2] || (r == REPROC_EWOULDBLOCK);
      cov[3] = cov[3] || (r > 0 && vp_blocked);
    } else if (op == 1) {
      /* ---- write ---- */
      size_t size = (size_t) vp_choice(0, 3);
      uint8_t wb[3];
      for (int i = 0; i < 3; i++) {
        wb[i] = (uint8_t) vp_byte();
      }
      bool full_before = pin >= 0 && vp_pp_len[pin] >= VP_CAP;
      size_t room_before = pin >= 0 ? (size_t) (VP_CAP - vp_pp_len[pin]) : 0;
      int r = reproc_write(p, wb, size);
      if (!open_s[0]) {
        VP_ASSERT(C02, r == REPROC_EPIPE, "write after stdin was closed does not return the closed-stream error");
      } else if (r >= 0) {
        VP_ASSERT(C02, (size_t) r <= size, "write reports more bytes than it was given");
        for (int i = 0; i < 3; i++) {
          if (i < r) {
            acc[acc_n + i] = wb[i];
          }
        }
        acc_n += r;
        VP_ASSERT(C17, o.nonblocking || (size_t) r == size || child_end_gone(pin, true),
                  "blocking write returns a partial count although the child still reads");
      } else if (r == REPROC_EPIPE) {
        VP_ASSERT(C02, child_end_gone(pin, true), "closed-stream error on write while the child still has stdin open");
        open_s[0] = false;
      } else if (VP_F > 0 && vp_faults_left < VP_F && r != REPROC_EWOULDBLOCK) {
        /* injected failure reported */
      } else {
        VP_ASSERT(C17, r == REPROC_EWOULDBLOCK && o.nonblocking && full_before,
                  "write fails with would-block although there was room (or in blocking mode)");
      }
      VP_ASSERT(C17, !o.nonblocking || !vp_blocked, "nonblocking write waited for the child");
      VP_ASSERT(C17, o.nonblocking || !vp_blocked || size > room_before,
                "blocking write waited although the pipe had room for all of it");
      cov[4] = cov[4] || (r > 0 && (size_t) r < size);
      cov[5] = cov[5] || (r == 3 && vp_blocked);
      cov[6] = cov[6] || (r == REPROC_EPIPE);
    } else {
      /* ---- close ---- */
      int s = vp_choice(0, 2);
      int r = reproc_close(p, (REPROC_STREAM) s);
      VP_ASSERT(C02, r == 0, "close fails");
      open_s[s] = false;
      if (s == 0 && pin >= 0) {
        VP_ASSERT(C02, vp_of_refs[vp_pp_w[pin]] == 0,
                  "after closing stdin the parent still holds a write end: the child never sees end-of-file");
      }
    }
    /* stdin fidelity: what the child has read is a prefix of what was accepted, and
     * nothing is lost or duplicated while the child keeps stdin open */
    bool pre = vp_c_n_in[0] <= acc_n;
    for (int i = 0; i < VP_LOG; i++) {
      if (i < vp_c_n_in[0] && i < acc_n) {
        pre = pre && vp_c_got_in[i] == acc[i];
      }
    }
    VP_ASSERT(C02, pre, "the child reads bytes that differ from (or are not in the order of) the accepted writes");
    if (pin >= 0 && vp_pp_cr[VP_PC(pin, 0)] && vp_c_n_in[0] < VP_LOG) {
      bool inpipe = vp_c_n_in[0] + vp_pp_len[pin] == acc_n;
      for (int i = 0; i < VP_CAP; i++) {
        if (i < vp_pp_len[pin] && vp_c_n_in[0] + i < acc_n) {
          inpipe = inpipe && vp_pp_buf[pin * VP_CAP + i] == acc[vp_c_n_in[0] + i];
        }
      }
      VP_ASSERT(C02, inpipe, "accepted bytes are missing from (or duplicated in) the child's stdin");
    }
  }
#if VP_ERRMODE == 2 || VP_ERRMODE < 0
  VP_COVER(cov[0], "two bytes of merged stdout/stderr in one read");
#endif
#if VP_ERRMODE == 1 || VP_ERRMODE < 0
  VP_COVER(cov[1], "stderr delivered completely, then end-of-stream");
#endif
  VP_COVER(cov[2], "would-block on an empty pipe");
  VP_COVER(cov[3], "blocking read that had to wait for the child");
  VP_COVER(cov[4], "partial write in nonblocking mode");
  VP_COVER(cov[5], "blocking write larger than the pipe that waited for the child");
  VP_COVER(cov[6], "write after the child closed stdin");
  VP_COVER(vp_c_n_in[0] == 2 && acc_n >= 2, "child read two bytes from stdin");
  VP_COVER(rcv[1] >= 2, "two stdout bytes received");
  VP_COVER(1, "end of harness");
}
