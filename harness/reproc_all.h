/* reproc_all.h - the real POSIX units of reproc in one translation unit, so that
 * harnesses can reach static functions and the fields of struct reproc_t.
 * Nothing here is a copy: the files are #included from /repo at build time. */
#ifndef REPROC_ALL_H
#define REPROC_ALL_H
#include "error.posix.c"
#ifdef VP_REAL_CLOCK
#include "clock.posix.c"
#else
/* now() (clock.posix.c: tv_sec * 1000 + tv_nsec / 1000000) is decided on its own by
 * H_clock; composite harnesses read the virtual clock directly, because 64-bit
 * division/multiplication round trips make the SAT instances needlessly hard. */
#include "clock.h"
int64_t now(void)
{
  struct timespec ts = { 0 };
  vp_clock_gettime(0, &ts); /* advances the drifting clock like the real call */
  return vp_T;
}
#endif
#include "init.posix.c"
#include "handle.posix.c"
#include "pipe.posix.c"
#include "strv.c"
#include "options.c"
#include "redirect.posix.c"
#include "redirect.c"
#include "process.posix.c"
#include "reproc.c"
#include "drain.c"
#include "run.c"
#endif
