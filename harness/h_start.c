/* H_start: the real reproc_start (and everything below it: options.c, redirect*.c,
 * pipe.posix.c, handle.posix.c, process.posix.c, strv.c) against the POSIX model,
 * with symbolic options, a symbolic initial descriptor table and signal mask, and
 * up to VP_F injected faults.
 *
 *   -DVP_SIDE=0  parent side of fork (assumes the child's contract G, DESIGN 2.3)
 *   -DVP_SIDE=1  child side of fork (proves the contract G)
 *   -DVP_IN_TYPE=n  stdin redirect type fixed to n (jobs are split by it), -1 = symbolic
 *   -DVP_F=n     fault budget;  -DVP_EINTR=1  EINTR may be injected
 *   -DVP_LOWFD=1 descriptors 0/1/2 of the parent may be closed
 *   -DVP_EXTRA=n number of unrelated descriptors that may be open in the parent
 *
 * Properties: C03 C04 C05 C06 C08(deadline stored) C10 C11 C12 C17(flag placement).
 */
#include "reproc_all.h"

#ifndef VP_SIDE
#define VP_SIDE 0
#endif
#ifndef VP_IN_TYPE
#define VP_IN_TYPE -1
#endif
#ifndef VP_F
#define VP_F 1
#endif
#ifndef VP_EINTR
#define VP_EINTR 1
#endif
#ifndef VP_LOWFD
#define VP_LOWFD 0
#endif
#ifndef VP_EXTRA
#define VP_EXTRA 2
#endif
#ifndef VP_USERFD_SYM
#define VP_USERFD_SYM 0
#endif
#ifndef VP_FORKMODE
#define VP_FORKMODE -1 /* -1 symbolic, 0 exec only, 1 fork only */
#endif

extern char **environ;

static char *parent_env[] = { "P=1", "Q=2", NULL };
static const char *const extra_env[] = { "A=b", NULL };
static const char *const argv_plain[] = { "p", "x", NULL };
static const char *const argv_rel[] = { "d/p", "", NULL };
static const char *const argv_abs[] = { "/p", "y", NULL };
static const char wd_obj[] = "wd";
static const char path_obj[3][3] = { "pi", "po", "pe" };
static const char spath_obj[] = "ps";
static const uint8_t input_obj[3] = { 'i', 'j', 'k' };

/* what the harness asked for, for the oracles */
static reproc_options g_opt;           /* as passed */
static reproc_options g_eff;           /* after parse_options: effective redirects */
static const char *const *g_argv;
static reproc_t *g_p;
static struct vp_snap g_snap;          /* descriptor table before start */
static uint64_t g_mask0;
static int8_t g_disp0[32];
static int64_t g_T0;
static int g_user_fd[2];
static int g_parent_end_pipe[4];       /* pipe objects of the parent's in/out/err/exit ends */

/* "not started": what a later start, destroy or any other call looks at. (The stored stop
 * policy and nonblocking flag are always overwritten by a successful start, so they are
 * deliberately not part of this predicate.) */
static bool fresh(const reproc_t *p)
{
  return p->handle == PROCESS_INVALID && p->pipe.in == PIPE_INVALID && p->pipe.out == PIPE_INVALID &&
         p->pipe.err == PIPE_INVALID && p->pipe.exit == PIPE_INVALID && p->status == STATUS_NOT_STARTED &&
         p->child.out == PIPE_INVALID && p->child.err == PIPE_INVALID &&
         p->deadline == REPROC_INFINITE; /* a later start only stores a deadline when one is given */
}

static bool streq(const char *a, const char *b)
{
  for (int i = 0; i < 16; i++) {
    if (a[i] != b[i]) {
      return false;
    }
    if (a[i] == '\0') {
      return true;
    }
  }
  return false;
}

/* Is descriptor `fd` (in the current table) the object stream `s` was asked to be? */
static bool stream_bound(int s)
{
  reproc_redirect r = s == 0 ? g_eff.redirect.in : s == 1 ? g_eff.redirect.out
                                                          : g_eff.redirect.err;
  if (!vp_fd_open[s] || vp_fd_cx[s]) {
    return false;
  }
  int o = vp_fd_ofd[s];
  int want_acc = s == 0 ? O_RDONLY : O_WRONLY;
  int parent_end = s == 0 ? g_p->pipe.in : s == 1 ? g_p->pipe.out : g_p->pipe.err;
  switch (r.type) {
    case REPROC_REDIRECT_PIPE:
      if (s == 0 && g_opt.input.data != NULL) {
        /* start-up input: the parent end has been closed already */
        return vp_of_kind[o] == VP_K_PIPE_R;
      }
      /* the parent's end is identified through the pipe object: its descriptor may
       * already have been closed by the child's close-all loop */
      (void) parent_end; /* in fork mode the handle's fields are already reset in the child */
      return vp_of_kind[o] == (s == 0 ? VP_K_PIPE_R : VP_K_PIPE_W) && g_parent_end_pipe[s] >= 0 &&
             g_parent_end_pipe[s] == vp_of_pipe[o];
    case REPROC_REDIRECT_PARENT:
      if (vp_std_present[s]) {
        return g_snap.open[s] && vp_fd_ofd[s] == g_snap.ofd[s];
      }
      return vp_of_kind[o] == VP_K_NULLDEV && vp_of_acc[o] == want_acc;
    case REPROC_REDIRECT_DISCARD:
      return vp_of_kind[o] == VP_K_NULLDEV && vp_of_acc[o] == want_acc;
    case REPROC_REDIRECT_STDOUT:
      return vp_fd_open[1] && vp_fd_ofd[s] == vp_fd_ofd[1];
    case REPROC_REDIRECT_HANDLE:
      return r.handle >= 0 && r.handle < VP_NFD && g_snap.open[r.handle] &&
             vp_fd_ofd[s] == g_snap.ofd[r.handle];
    case REPROC_REDIRECT_FILE: {
      int u = r.file == (FILE *) &vp_user_files[0] ? 0 : 1;
      return g_snap.open[g_user_fd[u]] && vp_fd_ofd[s] == g_snap.ofd[g_user_fd[u]];
    }
    case REPROC_REDIRECT_PATH:
      return vp_of_kind[o] == VP_K_PATH && vp_of_path[o] == r.path &&
             (vp_of_flags[o] & O_ACCMODE) == want_acc &&
             (s == 0 || (vp_of_flags[o] & O_CREAT) != 0);
    default:
      return false;
  }
}

/* child-side obligations that must hold when the program image starts (or, in fork
 * mode, when start returns 0 in the child) */
static void child_state_checks(bool at_exec)
{
  VP_ASSERT(C10, stream_bound(0), "child stdin is not the object the options ask for");
  VP_ASSERT(C10, stream_bound(1), "child stdout is not the object the options ask for");
  VP_ASSERT(C10, stream_bound(2), "child stderr is not the object the options ask for");

  /* C11: besides 0,1,2 exactly one descriptor survives exec: the exit handle */
  int survivors = 0, exit_fd = -1;
  for (int i = 3; i < VP_NFD; i++) {
    if (vp_fd_open[i] && (!vp_fd_cx[i] || !at_exec)) {
      /* in fork mode (no exec) everything still open counts */
      survivors++;
      exit_fd = i;
    }
  }
  if (!at_exec) {
    /* fork mode: besides 0,1,2 the child may keep the caller's own descriptors, but none of the
     * descriptors the library created (pipe ends of this or of sibling children) */
    bool lib_left = false;
    for (int i = 3; i < VP_NFD; i++) {
      lib_left = lib_left || (vp_fd_open[i] && vp_fd_own[i] == VP_OWN_LIB);
    }
    VP_ASSERT(C11, !lib_left, "the forked child keeps a descriptor the library created");
    VP_ASSERT(C02, !lib_left, "the forked child keeps a library pipe end: closing stdin in the parent never gives it end-of-file");
    VP_ASSERT(C20, !lib_left, "the forked child keeps pipe ends of other children");
  }
  if (at_exec) {
    VP_ASSERT(C11, survivors == 1,
              "a descriptor other than 0,1,2 and the exit handle is inherited by the program");
    VP_ASSERT(C20, survivors == 1,
              "a descriptor that may belong to another thread's child is inherited (its stdin would never see end-of-file)");
    bool is_exit = exit_fd >= 0 && vp_of_kind[vp_fd_ofd[exit_fd]] == VP_K_PIPE_W &&
                   g_parent_end_pipe[3] >= 0 &&
                   vp_of_pipe[vp_fd_ofd[exit_fd]] == g_parent_end_pipe[3];
    VP_ASSERT(C11, is_exit,
              "the surviving extra descriptor is not the write end of the exit-detection pipe");
    VP_ASSERT(C01, is_exit, "the program does not hold the exit-detection handle");
  }
  VP_ASSERT(C12, vp_sigmask == 0, "the program does not start with an empty signal mask");
  /* exec itself resets caught signals to the default but keeps ignored ones ignored; without exec
   * (fork mode) handlers stay installed too */
  bool disp_ok = true;
  for (int sg = 1; sg < 32; sg++) {
    if (sg != SIGKILL && sg != SIGSTOP) {
      disp_ok = disp_ok && (vp_sig_disp[sg] == 0 || (at_exec && vp_sig_disp[sg] == 2));
    }
  }
  VP_ASSERT(C12, disp_ok, "a standard signal keeps a non-default disposition in the child");
  VP_ASSERT(C04, vp_child_reported == 0, "the child reported an error but went on to run");
}

void vp_on_fork(void)
{
  /* remember which pipe objects the parent's ends belong to: the child's close-all
   * loop is about to close those descriptors in this (the child's) table */
  int pf[4] = { g_p->pipe.in, g_p->pipe.out, g_p->pipe.err, g_p->pipe.exit };
  for (int i = 0; i < 4; i++) {
    g_parent_end_pipe[i] = -1;
    if (pf[i] >= 0 && pf[i] < VP_NFD && vp_fd_open[pf[i]]) {
      int o = vp_fd_ofd[pf[i]];
      if (vp_of_kind[o] == (i == 0 ? VP_K_PIPE_W : VP_K_PIPE_R)) {
        g_parent_end_pipe[i] = vp_of_pipe[o];
      }
    }
  }
}

void vp_on_exec(const char *file, char *const argv[])
{
  /* C03 */
  bool rel = g_opt.working_directory != NULL && g_argv == argv_rel;
  if (rel) {
    bool slash = vp_cwd[1] == '\0'; /* cwd is "/" */
    VP_ASSERT(C03, streq(file, slash ? "/d/p" : "/w/d/p"),
              "relative program is not resolved against the parent's working directory");
  } else {
    VP_ASSERT(C03, streq(file, g_argv[0]), "program name passed to exec differs from argv[0]");
  }
  VP_ASSERT(C03, (const char *const *) argv == g_argv,
            "argument vector passed to exec is not the caller's");
  VP_ASSERT(C03, (vp_chdir_calls == 1) == (g_opt.working_directory != NULL),
            "working directory changed (or not) against the options");
  bool extend = g_opt.env.behavior == REPROC_ENV_EXTEND;
  int n = 0;
  bool env_ok = environ != NULL && environ != parent_env;
  if (env_ok && extend) {
    env_ok = environ[0] && streq(environ[0], "P=1") && environ[1] &&
             streq(environ[1], "Q=2");
    n = 2;
  }
  if (env_ok && g_opt.env.extra != NULL) {
    env_ok = environ[n] && streq(environ[n], "A=b");
    n++;
  }
  env_ok = env_ok && environ[n] == NULL;
  VP_ASSERT(C03, env_ok, "child environment is not parent entries (if extending) followed by the extra entries");
  child_state_checks(true);
#if VP_SIDE == 1
  VP_COVER(rel, "exec with cwd-prefixed relative program");
  VP_COVER(g_eff.redirect.err.type == REPROC_REDIRECT_STDOUT, "exec with stderr to stdout");
  VP_COVER(g_eff.redirect.out.type == REPROC_REDIRECT_PARENT && !vp_std_present[1],
           "exec with parent stdout absent (null device)");
  VP_COVER(g_eff.redirect.out.type == REPROC_REDIRECT_HANDLE, "exec with stdout handle");
  VP_COVER(g_eff.redirect.err.type == REPROC_REDIRECT_FILE, "exec with stderr FILE");
  VP_COVER(g_eff.redirect.out.type == REPROC_REDIRECT_PATH, "exec with stdout path");
  VP_COVER(1, "exec reached");
#endif
}

void vp_on_exit(int status)
{
  VP_ASSERT(C04, vp_in_child, "_exit called in the parent process");
  VP_ASSERT(C04, status == EXIT_FAILURE, "failed child exits with a success status");
  VP_ASSERT(C04, vp_child_reported > 0,
            "child fails before exec without reporting a positive errno to the parent");
  /* EMFILE is the library's own refusal to close more than 2^20 descriptors */
  VP_ASSERT(C04,
            vp_child_reported <= 0 || vp_err_was_seen(vp_child_reported) ||
                (vp_child_reported == EMFILE && vp_rlim_mode != 0),
            "child reports an errno that is not the one of the call that failed");
  bool fd_ok = vp_child_report_fd >= 3 && vp_child_report_fd < VP_NFD &&
               vp_fd_open[vp_child_report_fd] &&
               vp_of_kind[vp_fd_ofd[vp_child_report_fd]] == VP_K_PIPE_W;
  VP_ASSERT(C04, fd_ok, "child reports its error on something that is not an error pipe");
#if VP_SIDE == 1 && VP_F > 0
  VP_COVER(vp_child_reported > 0, "child-side failure reported");
#endif
}

static REPROC_REDIRECT pick_type(int s)
{
  /* 0 = DEFAULT .. 7 = PATH; STDOUT only offered for stderr (C13 covers rejection) */
  int t = vp_choice(0, 7);
  VP_ASSUME(s == 2 || t != REPROC_REDIRECT_STDOUT);
  return (REPROC_REDIRECT) t;
}

void harness(void)
{
  vp_init();
  environ = parent_env;

  /* ---- parent descriptor table ---- */
  for (int i = 0; i < 3; i++) {
    bool open = VP_LOWFD ? vp_bool() : true;
    if (open) {
      vp_add_fd(i, VP_K_STD, i == 0 ? O_RDONLY : O_WRONLY, VP_OWN_PRE, i, false);
    }
    vp_std_present[i] = vp_bool();
  }
#if VP_LOWFD && defined(VP_KF_REGION)
  /* known-finding run: restricted to the region "some standard descriptor is closed, or a
   * handle redirect names descriptor 1 or 2" (the second half is assumed where handles are
   * chosen: outside the region handles are >= 3) */
  bool kf_closed = !vp_fd_open[0] || !vp_fd_open[1] || !vp_fd_open[2];
#endif
  /* the caller's two descriptors (used for HANDLE and FILE redirects) */
#if VP_USERFD_SYM
  g_user_fd[0] = vp_choice(3, VP_NFD - 1);
  g_user_fd[1] = vp_choice(3, VP_NFD - 1);
  VP_ASSUME(g_user_fd[0] != g_user_fd[1]);
#else
  /* two layouts: below everything the library will allocate, or above it */
  bool high = vp_bool();
  g_user_fd[0] = high ? VP_NFD - 2 : 3;
  g_user_fd[1] = high ? VP_NFD - 3 : 4;
#endif
  for (int u = 0; u < 2; u++) {
    bool ucx = vp_bool();
    vp_add_fd(g_user_fd[u], VP_K_USER, O_RDWR, VP_OWN_USER, u, ucx);
    vp_user_file_fd[u] = g_user_fd[u];
  }
  /* unrelated descriptors, e.g. of siblings being started concurrently */
  for (int e = 0; e < VP_EXTRA; e++) {
    int fd = e == 0 ? VP_NFD - 1 : vp_choice(3, VP_NFD - 1);
    bool present = vp_bool();
    bool cx = vp_bool();
    if (present && !vp_fd_open[fd]) {
      vp_add_fd(fd, VP_K_OTHER, O_RDWR, VP_OWN_PRE, e, cx);
    }
  }
  vp_rlim_mode = vp_choice(0, 2);
  vp_cwd = vp_bool() ? "/w" : "/";
  uint64_t m_hi = (uint64_t) (unsigned) vp_choice(0, INT_MAX);
  uint64_t m_lo = (uint64_t) (unsigned) vp_choice(0, INT_MAX);
  vp_sigmask = (m_hi << 31) ^ m_lo;
  for (int sg = 1; sg < 32; sg++) {
    vp_sig_disp[sg] = (int8_t) vp_choice(0, 2); /* what the parent does with each signal */
  }
  for (int sg = 0; sg < 32; sg++) {
    g_disp0[sg] = vp_sig_disp[sg];
  }
  g_mask0 = vp_sigmask;
  vp_sigmask0 = vp_sigmask;
  vp_sigmask0_valid = VP_ON(C12) != 0; /* C12 excludes a failing restoring call; the others do not */

  /* ---- options ---- */
  reproc_options o = { 0 };
  o.working_directory = vp_bool() ? wd_obj : NULL;
  o.env.behavior = vp_bool() ? REPROC_ENV_EMPTY : REPROC_ENV_EXTEND;
  o.env.extra = vp_bool() ? extra_env : NULL;
  reproc_redirect *rr[3] = { &o.redirect.in, &o.redirect.out, &o.redirect.err };
  for (int s = 0; s < 3; s++) {
    REPROC_REDIRECT t = (s == 0 && VP_IN_TYPE >= 0) ? (REPROC_REDIRECT) VP_IN_TYPE
                                                    : pick_type(s);
    rr[s]->type = t;
    if (t == REPROC_REDIRECT_HANDLE) {
      int h = vp_choice(0, 3);
      rr[s]->handle = h == 0 ? 1 : h == 1 ? 2 : g_user_fd[h - 2];
#if !VP_LOWFD
      /* a handle that is itself one of the parent's descriptors 1/2 belongs to the region of
       * known finding D10 (sources at 0-2 are overwritten by the child's dup2 sequence) and is
       * explored by the known-finding job only */
      VP_ASSUME(h >= 2);
#endif
      VP_ASSUME(vp_fd_open[rr[s]->handle]);
    } else if (t == REPROC_REDIRECT_FILE) {
      rr[s]->file = (FILE *) &vp_user_files[vp_choice(0, 1)];
    } else if (t == REPROC_REDIRECT_PATH) {
      rr[s]->path = path_obj[s];
    }
  }
#if VP_LOWFD && defined(VP_KF_REGION)
  VP_ASSUME(kf_closed || (o.redirect.in.type == REPROC_REDIRECT_HANDLE && o.redirect.in.handle < 3) ||
            (o.redirect.out.type == REPROC_REDIRECT_HANDLE && o.redirect.out.handle < 3) ||
            (o.redirect.err.type == REPROC_REDIRECT_HANDLE && o.redirect.err.handle < 3));
#endif
  int sh = vp_choice(0, 4);
  o.redirect.parent = sh == 1;
  o.redirect.discard = sh == 2;
  o.redirect.file = sh == 3 ? (FILE *) &vp_user_files[0] : NULL;
  o.redirect.path = sh == 4 ? spath_obj : NULL;
  o.stop.first.action = (REPROC_STOP) vp_choice(0, 3);
  o.stop.first.timeout = vp_choice(-2, 1000);
  o.deadline = vp_choice(0, 1 << 20);
  int in_sz = vp_choice(-1, 3);
  if (in_sz >= 0) {
    o.input.data = input_obj;
    o.input.size = (size_t) in_sz;
  }
  o.nonblocking = vp_bool();
  o.fork = VP_FORKMODE < 0 ? vp_bool() : VP_FORKMODE;
  int av = vp_choice(0, 2);
  g_argv = o.fork ? NULL : av == 0 ? argv_plain : av == 1 ? argv_rel : argv_abs;

  /* only records the documentation accepts (C13 decides that part); the effective
   * redirect of each stream is taken from the real parse_options */
  g_opt = o;
  g_eff = o;
  VP_ASSUME(parse_options(&g_eff, g_argv) == 0);

  vp_faults_left = VP_F;
  vp_eintr_on = VP_EINTR;
  vp_side_child = VP_SIDE;
  vp_hang_allowed = false;

  reproc_t *p = reproc_new();
  VP_ASSUME(p != NULL);
  g_p = p;
  vp_snapshot_table(&g_snap);
  g_T0 = vp_T;
  int allocs0 = vp_live_allocs;
  char **environ0 = environ;

  int r = reproc_start(p, g_argv, o);

#if VP_SIDE == 1
  /* ------------------------------------------------------------ child side */
  if (!vp_in_child) {
    /* fork never happened (failure before it) or failed: parent-side job covers it */
    return;
  }
  /* G3: only fork mode returns in the child, and it returns 0 */
  VP_ASSERT(C04, o.fork && r == 0, "start returns in the forked child with something other than 0 in fork mode");
  if (r == 0) {
    VP_ASSERT(C14, p->status == STATUS_IN_CHILD && p->handle == PROCESS_INVALID,
              "child-side handle is not marked as such");
    child_state_checks(false);
    VP_ASSERT(C03, (vp_chdir_calls == 1) == (o.working_directory != NULL),
              "fork mode: working directory changed (or not) against the options");
    reproc_t *dc = reproc_destroy(p);
    VP_ASSERT(C15, dc == NULL, "destroy in the forked child returns non-null");
    VP_ASSERT(C15, vp_kill_calls == 0 && vp_waitpid_calls == 0,
              "destroy in the forked child signals or reaps");
    VP_COVER(1, "fork mode: returned 0 in the child");
  }
  return;
#else
  /* ------------------------------------------------------------ parent side */
  VP_ASSERT(C04, r < 0 || r == 1, "start returns something other than an error or 1 in the parent");
  VP_ASSERT(C12, vp_sigmask == g_mask0, "start returns with a different signal mask than it was called with");
  bool disp_same = true;
  for (int sg = 1; sg < 32; sg++) {
    disp_same = disp_same && vp_sig_disp[sg] == g_disp0[sg];
  }
  VP_ASSERT(C12, disp_same && vp_chdir_calls == 0 && environ == environ0,
            "start changed dispositions, working directory or environment of the caller");
  VP_ASSERT(C20, environ == environ0, "start writes the process-wide environ in the parent");

  int nreaped = 0, nalive = 0;
  for (int c = 0; c < VP_NCHILD; c++) {
    nreaped += vp_c_state[c] == VP_C_REAPED;
    nalive += vp_c_state[c] == VP_C_FORKED || vp_c_state[c] == VP_C_RUNNING ||
              vp_c_state[c] == VP_C_ZOMBIE;
  }

  if (r < 0) {
    VP_ASSERT(C04, vp_err_was_seen(-r), "start fails with an error that is not the one of a call that failed");
    VP_ASSERT(C04, nalive == 0, "failed start leaves a child process (running or zombie) behind");
    VP_ASSERT(C05, nalive == 0, "failed start leaves a child process (running or zombie) behind");
    VP_ASSERT(C04, fresh(p), "failed start leaves the handle in a state other than not-started");
    VP_ASSERT(C14, fresh(p), "failed start leaves the handle in a state other than not-started");
    VP_ASSERT(C10, fresh(p), "failed start leaves stale pipe ends (or a deadline) that a later start would keep");
    VP_ASSERT(C15, fresh(p), "failed start leaves a deadline (or pipes) that a later start and destroy would act on");
    VP_ASSERT(C05, vp_table_equals(&g_snap), "failed start leaks or loses a descriptor");
    VP_ASSERT(C04, vp_table_equals(&g_snap), "failed start leaks or loses a descriptor");
    VP_ASSERT(C05, vp_live_allocs == allocs0, "failed start leaks memory");
    VP_ASSERT(C06, p->handle == PROCESS_INVALID, "failed start leaves a pid in the handle");
    /* a handle whose start failed is destroyed: everything is released, nothing is signalled */
    int kills0 = vp_kill_calls;
    vp_faults_left = 0;
    reproc_t *df = reproc_destroy(p);
    VP_ASSERT(C15, df == NULL, "destroy after a failed start does not return null");
    VP_ASSERT(C15, vp_table_equals(&g_snap) && vp_live_allocs == allocs0 - 1 && vp_kill_calls == kills0,
              "destroy after a failed start leaves descriptors or memory behind (or signals something)");
    VP_ASSERT(C05, vp_table_equals(&g_snap) && vp_live_allocs == allocs0 - 1,
              "failed start followed by destroy leaks a descriptor or memory");
  } else {
    VP_ASSERT(C04, vp_nchild == 1 && vp_c_state[0] == VP_C_FORKED && vp_c_resolved[0] >= 1 &&
                       vp_c_start_errno[0] == 0,
              "start reports success although the child's launch failed or was never confirmed");
    int pid_api = reproc_pid(p);
    VP_ASSERT(C04, p->handle == vp_c_pid[0] && p->handle > 0 && pid_api == p->handle,
              "start reports success with a pid that is not the forked child's");
    VP_ASSERT(C06, p->handle == vp_c_pid[0] && p->handle > 0,
              "running handle refers to a pid other than its own child");
    VP_ASSERT(C14, p->status == STATUS_IN_PROGRESS, "successful start does not make the handle running");
    /* descriptors: exactly the handle's pipe ends are new */
    int expect = 0;
    bool ends_ok = true;
    int pf[4] = { p->pipe.in, p->pipe.out, p->pipe.err, p->pipe.exit };
    for (int i = 0; i < 4; i++) {
      if (pf[i] != PIPE_INVALID) {
        expect++;
        ends_ok = ends_ok && pf[i] >= 0 && pf[i] < VP_NFD && vp_fd_open[pf[i]] &&
                  !g_snap.open[pf[i]] && vp_fd_own[pf[i]] == VP_OWN_LIB &&
                  vp_fd_cx[pf[i]] &&
                  vp_of_kind[vp_fd_ofd[pf[i]]] == (i == 0 ? VP_K_PIPE_W : VP_K_PIPE_R);
        for (int j = 0; j < i; j++) {
          ends_ok = ends_ok && pf[j] != pf[i];
        }
      }
    }
    int now_lib = vp_count_open(VP_OWN_LIB);
    VP_ASSERT(C05, ends_ok && now_lib == expect,
              "after a successful start the library holds descriptors other than its pipe ends");
    bool others_same = true;
    for (int i = 0; i < VP_NFD; i++) {
      if (g_snap.open[i]) {
        others_same = others_same && vp_fd_open[i] && vp_fd_ofd[i] == g_snap.ofd[i] &&
                      vp_fd_cx[i] == g_snap.cx[i];
      }
    }
    VP_ASSERT(C05, others_same, "start closed or altered a descriptor of the caller");
    VP_ASSERT(C10, others_same, "start closed or altered a descriptor of the caller");
    VP_ASSERT(C05, vp_live_allocs == allocs0, "successful start leaks memory");
    VP_ASSERT(C01, p->pipe.exit != PIPE_INVALID, "running handle has no exit-detection pipe");
    /* C10: a pipe end for a stream exactly when that stream is a pipe */
    VP_ASSERT(C10, (p->pipe.in != PIPE_INVALID) ==
                       (g_eff.redirect.in.type == REPROC_REDIRECT_PIPE && o.input.data == NULL),
              "parent holds a stdin pipe end although stdin is not a pipe (or the reverse)");
    VP_ASSERT(C10, (p->pipe.out != PIPE_INVALID) == (g_eff.redirect.out.type == REPROC_REDIRECT_PIPE),
              "parent holds a stdout pipe end although stdout is not a pipe (or the reverse)");
    VP_ASSERT(C10, (p->pipe.err != PIPE_INVALID) == (g_eff.redirect.err.type == REPROC_REDIRECT_PIPE),
              "parent holds a stderr pipe end although stderr is not a pipe (or the reverse)");
    /* C17: O_NONBLOCK sits on the parent's ends, exactly when asked for */
    for (int i = 0; i < 3; i++) {
      if (pf[i] != PIPE_INVALID && ends_ok) {
        int mine = vp_fd_ofd[pf[i]];
        int pp = vp_of_pipe[mine];
        int peer = i == 0 ? vp_pp_r[pp] : vp_pp_w[pp];
        VP_ASSERT(C17, vp_of_nb[mine] == o.nonblocking,
                  "O_NONBLOCK on the parent's pipe end does not follow the nonblocking option");
        VP_ASSERT(C17, !vp_of_nb[peer], "O_NONBLOCK was put on the child's end of a pipe");
        VP_ASSERT(C02, !vp_of_nb[peer], "O_NONBLOCK was put on the child's end of a pipe");
      }
    }
    /* C02: start-up input was delivered completely and stdin closed */
    if (o.input.data != NULL && g_eff.redirect.in.type == REPROC_REDIRECT_PIPE) {
      bool found = false;
      /* the stdin pipe is the first pipe reproc_start creates: pipe object 0 */
      for (int q = 0; q < 1; q++) {
        if (vp_pp_used[q] && vp_pp_cr[VP_PC(q, 0)] && vp_of_refs[vp_pp_w[q]] == 0 &&
            vp_pp_len[q] == (int) o.input.size) {
          bool same = true;
          for (int b = 0; b < VP_CAP; b++) {
            same = same && (b >= vp_pp_len[q] || vp_pp_buf[q * VP_CAP + b] == input_obj[b]);
          }
          found = found || same;
        }
      }
      VP_ASSERT(C02, found, "start-up input was not delivered completely and in order with stdin closed");
      VP_ASSERT(C17, found, "start-up input was not delivered completely");
    }
    VP_ASSERT(C17, !vp_blocked, "start blocked on the child");
    /* C08: the deadline is measured from start */
    VP_ASSERT(C08, o.deadline == 0 ? p->deadline == REPROC_INFINITE
                                   : p->deadline == g_T0 + o.deadline,
              "stored deadline is not start time + deadline option (or none for 0)");
    VP_ASSERT(C15, p->stop.first.action == g_eff.stop.first.action &&
                       p->stop.first.timeout == g_eff.stop.first.timeout &&
                       p->stop.second.action == g_eff.stop.second.action &&
                       p->stop.third.action == g_eff.stop.third.action,
              "stop policy given at start is not the one stored for destroy");
  }
  VP_COVER(r > 0 && o.fork, "parent side: fork mode success");
#if VP_IN_TYPE == 1 || VP_IN_TYPE < 0
  VP_COVER(r > 0 && o.input.data != NULL && o.input.size == 2, "success with start-up input filling the pipe");
  VP_COVER(r == REPROC_EWOULDBLOCK, "start-up input larger than the pipe: clean failure");
#endif
  VP_COVER(r < 0 && nreaped == 1, "child-side failure reported to and reaped by the parent");
  VP_COVER(r > 0 && g_eff.redirect.err.type == REPROC_REDIRECT_STDOUT, "success with stderr to stdout");
#if VP_IN_TYPE == 7 || VP_IN_TYPE < 0
  VP_COVER(r > 0 && g_eff.redirect.in.type == REPROC_REDIRECT_PATH, "success with stdin path");
#endif
#if VP_F > 0
  VP_COVER(r < 0 && vp_calls_fork == 1 && vp_nchild == 0, "fork itself failed");
  VP_COVER(r == -ENOMEM, "allocation failure reported");
#endif
#if VP_F > 0 && VP_EINTR
  VP_COVER(r > 0 && vp_faults_left < VP_F, "success despite an injected (ignorable or retried) failure");
#endif
  VP_COVER(1, "end of parent-side harness");
#endif
}
