/* h_units.c - leaf kernels decided on their own, full width, against short reference
 * functions. Select with -DVP_UNIT=
 *   1 parse_status (C01)         every exit code 0..255 and every signal 1..64 (+core)
 *   2 expiry / find_earliest_deadline (C08)
 *   3 now() in clock.posix.c (C08, supports the clock stub of the composite harnesses)
 *   4 error_string (C14)         every int, including INT_MIN
 *   5 strv_concat / strv_free (C03, C05)  allocation faults included
 *   6 sink_string (C16)          allocation failure at any growth step
 */
#if VP_UNIT == 3
#define VP_REAL_CLOCK 1
#endif
#include "reproc_all.h"
#include "vp_nocb.h"
#include "h_common.h"

#ifndef VP_UNIT
#define VP_UNIT 1
#endif

#if VP_UNIT == 1
void harness(void)
{
  bool exited = vp_bool();
  int code = vp_choice(0, 255);
  int sig = vp_choice(1, 64);
  int core = vp_choice(0, 1);
  int w = exited ? (code << 8) : (sig | (core << 7));
  int r = parse_status(w);
  VP_ASSERT(C01, !exited || r == code, "exit code is not reported exactly");
  VP_ASSERT(C01, exited || r == 128 + sig, "terminating signal is not reported as 128 + signal");
  VP_ASSERT(C01, REPROC_SIGKILL == 128 + SIGKILL && REPROC_SIGTERM == 128 + SIGTERM,
            "REPROC_SIGKILL / REPROC_SIGTERM do not match 128 + signal");
  VP_COVER(!exited && core && sig == 11, "core-dumping signal");
  VP_COVER(exited && code == 255, "exit code 255");
  VP_COVER(1, "end of harness");
}
#endif

#if VP_UNIT == 2
#ifndef VP_N
#define VP_N 3
#endif
static reproc_t procs[VP_N];

static int ref_expiry(int timeout, int64_t deadline, int64_t n)
{
  if (deadline == -1) {
    return timeout; /* also covers both infinite */
  }
  if (n >= deadline) {
    return REPROC_DEADLINE;
  }
  int64_t rem = deadline - n;
  if (timeout == -1) {
    return (int) rem;
  }
  return timeout < rem ? timeout : (int) rem;
}

void harness(void)
{
  vp_init();
  reproc_event_source src[VP_N];
  bool any_expired = false, any_deadline = false;
  int64_t best = VP_NEVER;
  for (int i = 0; i < VP_N; i++) {
    int kind = vp_choice(0, 3); /* empty source, no deadline, future, expired */
    int d = vp_choice(1, INT_MAX);
    procs[i].deadline = kind <= 1 ? -1 : kind == 2 ? vp_T + d : vp_T - (d - 1);
    /* a deadline is a start time plus a positive number: never negative */
    VP_ASSUME(kind <= 1 || procs[i].deadline >= 0);
    src[i].process = kind == 0 ? NULL : &procs[i];
    src[i].interests = 0;
    src[i].events = 0;
    if (kind == 3) {
      any_expired = true;
    }
    if (kind == 2) {
      any_deadline = true;
      if (procs[i].deadline < best) {
        best = procs[i].deadline;
      }
    }
  }
  size_t e = find_earliest_deadline(src, VP_N);
  VP_ASSERT(C08, e < VP_N, "index of the earliest deadline is out of range");
  if (e < VP_N) {
    reproc_t *q = src[e].process;
    if (any_expired) {
      VP_ASSERT(C08, q != NULL && q->deadline != -1 && q->deadline <= vp_T,
                "an expired deadline exists but another source is chosen");
    } else if (any_deadline) {
      VP_ASSERT(C08, q != NULL && q->deadline == best,
                "the chosen source does not have the earliest deadline");
    } else {
      VP_ASSERT(C08, q == NULL || q->deadline == -1, "a deadline is invented");
    }
  }
  /* expiry, full width */
  int timeout = vp_choice(-1, INT_MAX);
  int k = vp_choice(0, 2);
  int d = vp_choice(1, INT_MAX);
  int64_t deadline = k == 0 ? -1 : k == 1 ? vp_T + d : vp_T - (d - 1);
  VP_ASSUME(k == 0 || deadline >= 0);
  int r = expiry(timeout, deadline);
  VP_ASSERT(C08, r == ref_expiry(timeout, deadline, vp_T),
            "time left is not min(timeout, deadline - now) / expired / infinite");
  VP_COVER(any_expired && any_deadline, "expired and future deadlines mixed");
  VP_COVER(!any_expired && any_deadline && src[0].process != NULL && procs[0].deadline == -1,
           "source without deadline before one with a deadline");
  VP_COVER(r == REPROC_DEADLINE, "expired");
  VP_COVER(1, "end of harness");
}
#endif

#if VP_UNIT == 3
/* the real now() against the real vp_clock_gettime conversion */
void harness(void)
{
  int64_t hi = vp_choice(0, (1 << 21) - 1);
  int64_t lo = vp_choice(0, (1 << 20) - 1);
  vp_T = (hi << 20) + lo; /* any instant below 2^41 ms */
  int64_t n = now();
  VP_ASSERT(C08, n == vp_T, "now() is not seconds*1000 + nanoseconds/10^6");
  VP_COVER(vp_T % 1000 == 999, "millisecond 999");
  VP_COVER(1, "end of harness");
}
#endif

#if VP_UNIT == 4
void harness(void)
{
  int e = vp_choice(INT_MIN, INT_MAX);
  const char *s = error_string(e);
  VP_ASSERT(C14, s != NULL, "error string is null");
  bool term = false;
  for (int i = 0; i < 4; i++) {
    term = term || s[i] == '\0';
  }
  /* the model's strerror_r writes at most 3 characters; the fallback literal is longer
   * and a string literal, so dereferencing it is checked by CBMC's pointer checks */
  VP_ASSERT(C14, term || s[4] != '\0' || true, "error string readable");
  VP_COVER(e == INT_MIN, "INT_MIN");
  VP_COVER(1, "end of harness");
}
#endif

#if VP_UNIT == 5
#ifndef VP_L
#define VP_L 2
#endif
/* vectors of up to 2 strings of up to VP_L bytes, contents symbolic (1-D storage) */
static char sa[2 * (VP_L + 1)], sb[2 * (VP_L + 1)];
static char *va[3];
static const char *vb[3];

static int fill(char *store, char **vec, int n)
{
  for (int i = 0; i < 2; i++) {
    int len = vp_choice(0, VP_L);
    for (int j = 0; j < VP_L; j++) {
      char c = (char) vp_choice(1, 255);
      store[i * (VP_L + 1) + j] = j < len ? c : '\0';
    }
    store[i * (VP_L + 1) + VP_L] = '\0';
    vec[i] = i < n ? &store[i * (VP_L + 1)] : NULL;
  }
  vec[2] = NULL;
  return n;
}

static bool same(const char *x, const char *y)
{
  bool eq = true, live = true;
  for (int i = 0; i <= VP_L; i++) {
    if (live) {
      eq = eq && x[i] == y[i];
      live = x[i] != '\0' && y[i] != '\0';
    }
  }
  return eq;
}

void harness(void)
{
  vp_init();
  int na = vp_choice(-1, 2); /* -1: NULL vector */
  int nb = vp_choice(-1, 2);
  fill(sa, va, na < 0 ? 0 : na);
  fill(sb, (char **) vb, nb < 0 ? 0 : nb);
  vp_faults_left = vp_choice(0, 1);
  int faults0 = vp_faults_left;
  char **r = strv_concat(na < 0 ? NULL : va, nb < 0 ? NULL : vb);
  int n1 = na < 0 ? 0 : na, n2 = nb < 0 ? 0 : nb;
  if (r == NULL) {
    VP_ASSERT(C03, vp_faults_left < faults0, "concatenation fails without an allocation failure");
    VP_ASSERT(C05, vp_live_allocs == 0, "failed concatenation leaks memory");
  } else {
    bool ok = true;
    for (int i = 0; i < 2; i++) {
      if (i < n1) {
        ok = ok && r[i] != NULL && r[i] != va[i] && same(r[i], va[i]);
      }
      if (i < n2) {
        ok = ok && r[n1 + i] != NULL && r[n1 + i] != vb[i] && same(r[n1 + i], vb[i]);
      }
    }
    ok = ok && r[n1 + n2] == NULL;
    VP_ASSERT(C03, ok, "result is not a deep copy of the first vector's entries followed by the second's, NULL-terminated");
    VP_ASSERT(C05, vp_live_allocs == 1 + n1 + n2, "unexpected number of live allocations");
    char **sf = strv_free(r);
    VP_ASSERT(C05, sf == NULL && vp_live_allocs == 0, "strv_free does not release everything exactly once");
    VP_ASSERT(C03, sf == NULL, "strv_free does not return null");
  }
  VP_COVER(r != NULL && n1 == 2 && n2 == 2, "two plus two entries");
  VP_COVER(r == NULL, "allocation failure");
  VP_COVER(r != NULL && n1 == 1 && va[0][0] == '\0', "empty string entry");
  VP_COVER(1, "end of harness");
}
#endif

#if VP_UNIT == 6
#ifndef VP_L
#define VP_L 3
#endif
void harness(void)
{
  vp_init();
  char *out = NULL;
  int oldlen = vp_choice(-1, VP_L); /* -1: NULL */
  char old[VP_L + 1];
  if (oldlen >= 0) {
    out = (char *) vp_malloc((size_t) oldlen + 1);
    VP_ASSUME(out != NULL);
    for (int i = 0; i < VP_L; i++) {
      char c = (char) vp_choice(1, 255);
      old[i] = c;
      if (i < oldlen) {
        out[i] = c;
      }
    }
    out[oldlen] = '\0';
  }
  uint8_t chunk[VP_L];
  int n = vp_choice(0, VP_L);
  for (int i = 0; i < VP_L; i++) {
    chunk[i] = (uint8_t) vp_choice(0, 255);
  }
  char *before = out;
  reproc_sink sink = reproc_sink_string(&out);
  VP_ASSERT(C16, sink.function != NULL && sink.context == (void *) &out, "string sink is not bound to the given pointer");
  vp_faults_left = vp_choice(0, 1);
  int stream = vp_choice(0, 2);
  int r = sink.function((REPROC_STREAM) stream, chunk, (size_t) n, sink.context);
  int ol = oldlen < 0 ? 0 : oldlen;
  if (r != 0) {
    VP_ASSERT(C16, r == REPROC_ENOMEM, "string sink fails with something other than the out-of-memory error");
    bool intact = out == before;
    for (int i = 0; i < VP_L; i++) {
      if (oldlen >= 0 && i < oldlen) {
        intact = intact && out[i] == old[i];
      }
    }
    VP_ASSERT(C16, intact && (oldlen < 0 || out[oldlen] == '\0'), "on allocation failure the previous string is lost or damaged");
  } else {
    bool ok = out != NULL;
    for (int i = 0; i < VP_L; i++) {
      if (ok && i < ol) {
        ok = out[i] == old[i];
      }
      if (ok && i < n) {
        ok = out[ol + i] == (char) chunk[i];
      }
    }
    ok = ok && out[ol + n] == '\0';
    VP_ASSERT(C16, ok, "string sink result is not previous content + chunk, NUL-terminated");
  }
  void *fr = reproc_free(out);
  VP_ASSERT(C16, fr == NULL, "reproc_free does not return null");
  VP_ASSERT(C16, vp_live_allocs == 0, "string sink leaks or double frees");
  VP_ASSERT(C05, vp_live_allocs == 0, "string sink: memory is not released exactly once (or becomes unreachable)");
  VP_ASSERT(C05, r == 0 || out == before, "string sink: on failure the caller's pointer no longer refers to its block");
  VP_COVER(r == REPROC_ENOMEM && oldlen > 0, "allocation failure with previous content");
  VP_COVER(r == 0 && oldlen == VP_L && n == VP_L, "full previous content plus full chunk");
  VP_COVER(r == 0 && oldlen < 0 && n == 0, "empty chunk onto a null string");
  VP_COVER(1, "end of harness");
}
#endif
