/* h_common.h - set-up shared by the harnesses that run against the POSIX model */
#ifndef H_COMMON_H
#define H_COMMON_H

extern char **environ;
static char *vp_parent_env[] = { "P=1", NULL };

/* model initialised, descriptors 0/1/2 open as the parent's standard streams,
 * one-entry parent environment */
static void vp_std_setup(void)
{
  vp_init();
  environ = vp_parent_env;
  for (int i = 0; i < 3; i++) {
    vp_add_fd(i, VP_K_STD, i == 0 ? O_RDONLY : O_WRONLY, VP_OWN_PRE, i, false);
  }
}

#endif
