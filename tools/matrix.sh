#!/bin/bash
# tools/matrix.sh [pattern]  run every seeded change (and every reverted fix) against the quick check of
# its property in a scratch worktree; results -> seeded/RESULTS.tsv (one line per change)
cd /verif
OUT=seeded/RESULTS.tsv
PAT=${1:-.}
for d in seeded/C*-*; do
  n=$(basename $d); prop=${n%%-*}
  echo "$n" | grep -q "$PAT" || continue
  [ -f $d/patch.diff ] || continue
  r=$(LINES_MAX=3 tools/mutcheck.sh $d/patch.diff $prop 2>&1)
  rc=$(echo "$r" | grep -o "rc=[0-9]*" | tail -1)
  a=$(echo "$r" | grep "assertion=" | head -1 | sed 's/.*assertion=//')
  printf "%s\t%s\t%s\t%s\n" "$n" "$prop" "$rc" "$a" >> $OUT
  echo "$n $rc $a"
done
for f in seeded/_fixes/*.fix.diff; do
  n=$(basename $f .fix.diff); prop=${n##*-}
  echo "$n" | grep -q "$PAT" || continue
  r=$(LINES_MAX=3 tools/mutcheck.sh $f $prop -R 2>&1)
  rc=$(echo "$r" | grep -o "rc=[0-9]*" | tail -1)
  a=$(echo "$r" | grep "assertion=" | head -1 | sed 's/.*assertion=//')
  printf "%s(reverted)\t%s\t%s\t%s\n" "$n" "$prop" "$rc" "$a" >> $OUT
  echo "$n $rc $a"
done
