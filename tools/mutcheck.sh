#!/bin/bash
# tools/mutcheck.sh <patch> <prop> [-R]   apply a patch to /repo, run the quick check, undo.
set -u
P=$(readlink -f "$1"); PROP=$2; REV=${3:-}
cd /repo || exit 3
if ! git diff --quiet; then echo "repo dirty"; exit 3; fi
git apply $REV "$P" || { echo "patch does not apply"; exit 3; }
cd /verif
./check $PROP --tier quick ${ONLY:+--only $ONLY} > /tmp/mutcheck.$$.log 2>&1
rc=$?
git -C /repo checkout -- .
grep -E "VIOLATION|UNCONFIRMED|INCONCLUSIVE|HELD|assertion=" /tmp/mutcheck.$$.log | head -8
rm -f /tmp/mutcheck.$$.log
echo "rc=$rc"
exit $rc
