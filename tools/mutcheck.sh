#!/bin/bash
# tools/mutcheck.sh <patch> <prop> [-R]
# Apply a patch to a scratch worktree of /repo (never to /repo itself), run the quick
# check of <prop> against it (VP_REPO), remove the worktree. ONLY=<substr> limits jobs.
set -u
P=$(readlink -f "$1"); PROP=$2; REV=${3:-}
W=/tmp/mut/$(basename "$(dirname "$P")")-$(basename "$P" .diff)-$PROP-$$
mkdir -p /tmp/mut
git -C /repo worktree add -q --detach "$W" HEAD || exit 3
( cd "$W" && git apply $REV "$P" ) || { echo "patch does not apply"; git -C /repo worktree remove --force "$W"; exit 3; }
cd /verif
VP_REPO="$W" ./check $PROP --tier ${TIER:-quick} ${ONLY:+--only $ONLY} > "$W.log" 2>&1
rc=$?
git -C /repo worktree remove --force "$W"
grep -E "VIOLATION|UNCONFIRMED|INCONCLUSIVE|HELD|assertion=|note:" "$W.log" | cut -c1-220 | head -${LINES_MAX:-8}
rm -f "$W.log"
echo "rc=$rc  ($P on $PROP)"
exit $rc
