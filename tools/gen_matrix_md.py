#!/usr/bin/env python3
"""seeded/RESULTS.tsv + seeded/*/meta.json -> markdown table for DESIGN.md section 13"""
import json
import os
import sys

root = os.path.join(os.path.dirname(os.path.abspath(__file__)), "..", "seeded")
rows = {}
for line in open(os.path.join(root, "RESULTS.tsv")):
    parts = line.rstrip("\n").split("\t")
    if len(parts) >= 3:
        rows[parts[0]] = parts  # later lines (re-runs) win
print("| change | property | what it does | verdict of `./check` | first assertion reported |")
print("|---|---|---|---|---|")
for name in sorted(rows):
    n, prop, rc, *rest = rows[name]
    a = rest[0] if rest else ""
    summ = ""
    mj = os.path.join(root, n.replace("(reverted)", ""), "meta.json")
    if os.path.exists(mj):
        try:
            summ = json.load(open(mj)).get("summary", "")
        except ValueError:
            pass
    if n.endswith("(reverted)"):
        summ = "pre-existing defect %s: the `fix:` commit reverted" % n.split("-")[0]
    verdict = {"rc=1": "**caught** (VIOLATION)", "rc=0": "missed", "rc=2": "inconclusive (exit 2)", "rc=3": "patch did not apply"}.get(rc, rc)
    print("| %s | %s | %s | %s | %s |" % (n, prop, summ.replace("|", "/")[:220], verdict, a.replace("|", "/")[:120]))
