#!/usr/bin/env python3
"""Regenerate /verif/MANIFEST.json from the registry (keeps the interface file in sync)."""
import json
import os
import sys

sys.path.insert(0, os.path.dirname(os.path.dirname(os.path.abspath(__file__))))
from vp import registry  # noqa: E402

TEXT = {
    "C01": "Bounded model checking of the real wait/stop/terminate/kill/destroy code against a symbolic child: every exit code 0..255 and signal 1..64 (+core flag) through the real wait-status macros, every timing of the child's end relative to one stop/wait call preceded by an optional wait and arbitrary passage of time, plus one- and two-call histories from every abstract handle state; Windows process_wait for every 32-bit exit code.",
    "C02": "Bounded model checking of reproc_read/write/close (and start-up input in H_start) against a model child that writes, reads and closes at solver-chosen moments: byte-exact order per stream, end-of-stream only after complete delivery, stdin fidelity and EOF, for every interleaving within 3 parent calls x 3 child actions (thorough 4 x 4) over a 2-byte pipe.",
    "C03": "Bounded model checking: path_prepend_cwd/path_is_relative with the growth increment scaled to 4 over every cwd <= 10 bytes and path <= 3 bytes with failing getcwd/calloc/realloc in a canary-guarded arena; strv_concat/strv_free over all small vectors with allocation faults; and the child side of the real reproc_start checked at exec (program string, argv identity, environment contents, chdir). Windows: the real process_start must hand CreateProcessW the joined command line, the environment block (parent entries if extending + extras) and the working directory it was given.",
    "C04": "Bounded model checking of the real reproc_start on both sides of fork with symbolic options (every accepted redirect combination), descriptor table, signal mask and up to F injected failures (any errno, EINTR included) at every modelled call: all-or-nothing, real cause, child reaped, success only after the child confirmed its launch. Windows: the real process_start and redirect_init with every Win32 call / allocation failing one at a time (success only if CreateProcessW succeeded, the failing call's error otherwise).",
    "C05": "The model's descriptor/allocation ledger asserted in every start path (with faults, failing close included), in destroy from every abstract handle state, in call histories and in run: each close hits an open library-owned descriptor, table and heap equal the initial ones afterwards, child reaped at most once. Windows: the real process_start / redirect_init / redirect_destroy release every block, environment block, attribute list, thread handle and library-opened handle on every path.",
    "C06": "Every kill()/waitpid() reaching the model is asserted to target the positive pid that fork returned for this handle while that child is unreaped; after a status is known terminate/kill send nothing; start with allocation faults never leaves a running handle without pid. Windows: process_terminate / process_kill signal exactly the given child (its own process group / handle).",
    "C07": "One reproc_stop with a fully symbolic triple of (action in -1..4, timeout in {deadline, infinite, 0, any finite}) on a running / exited / reaped child with symbolic behaviour, compared with a reference semantics written from the documentation: signals, their order and exact virtual times, return value, elapsed time, permission to block forever.",
    "C08": "expiry/find_earliest_deadline at full width over 3 (4) sources; the real now(); reproc_wait against the reference; reproc_poll over constructed handles in arbitrary valid states with symbolic deadlines/timeouts: never past min(timeout, earliest deadline), 0 exactly at the timeout, only DEADLINE on the earliest source, expired deadlines immediately; stored deadline = start time + option.",
    "C09": "reproc_poll over 2 (3) sources whose handles are constructed in arbitrary states satisfying the representation invariant (per stream: no pipe / open with data pending / closed by the child), symbolic interests, child running/dead/reaped: events subset of interests, empty sources silent, count exact, reported events true and complete, EPIPE exactly when nothing is pollable.",
    "C10": "Child side of the real reproc_start: at exec (and at return in fork mode) descriptors 0,1,2 are asserted to be exactly the requested object with the right access mode for every accepted redirect combination, absent parent streams, user handles/FILEs in two layouts; parent side: a pipe end is held exactly for piped streams and no caller descriptor is altered. The parent's own descriptors 0-2 are open in the ordinary jobs; the region where one is closed (or a HANDLE redirect names 1/2) is known finding D10, explored by a separate job that must keep showing it. Windows: redirect_init/redirect_destroy over the real redirect.windows.c and the handles the real process_start passes to CreateProcessW, against stubbed Win32 calls.",
    "C11": "Child side of the real reproc_start with unrelated descriptors (incl. the highest permitted number, with and without FD_CLOEXEC), every modelled descriptor limit: at exec the only descriptor besides 0,1,2 that survives is the write end of the exit-detection pipe. Known finding D10 (exit pipe landing on 0-2) is explored by a separate region job. Windows: the real process_start must restrict inheritance to exactly the three streams and the exit handle (attribute list, inherit flags), and no Windows unit may keep mutable static storage.",
    "C12": "Both sides of the real reproc_start with a symbolic initial signal mask and injected failures: on every parent return path the mask equals the initial one and no sigaction/chdir/environ write happened; at exec the mask is empty and all standard signals were reset; sigprocmask is never used.",
    "C13": "Solver-decided equivalence between parse_options and a transcription of reproc.h over every option record (full-width ints, every pointer combination), plus the real reproc_start on forbidden records: EINVAL with zero calls into the OS model and zero allocations.",
    "C14": "A reference life-cycle state machine checked against the real API for one (thorough: two plus one) symbolic call from every abstract handle state reached by a canonical prefix, including misuse (NULL handle, NULL/size-0 buffers, invalid streams, zero sources, second start), with CBMC's memory-safety, overflow and shift checks active on all repository code; error_string for every int.",
    "C15": "reproc_destroy with a symbolic stop policy, deadline and child behaviour from running/exited/reaped states compared with the same reference as C07 (signals, times, blocking), resources released, NULL returned; destroy in the forked child; the C++ destructor calling reproc_destroy exactly once (IR route).",
    "C16": "reproc_drain / reproc_run_ex / reproc_run against the I/O model with logging sinks that may fail at any call: protocol of the first two calls, tags, byte order per stream, one size-0 call per closing stream, return values, deadline -> timeout, handle destroyed on every path; sink_string against all small contents with allocation failure.",
    "C17": "With the nonblocking option no model call ever waits (ghost flag) and results are count/partial/EPIPE/EWOULDBLOCK; O_NONBLOCK is on the parent's description only; start-up input is delivered completely or start fails, never blocking; blocking calls wait only while the pipe is empty/full and the child still holds its end.",
    "C18": "argv_join/argument_escape/argument_escaped_size and env_join/env_join_size/env_concat of process.windows.c compiled with a stand-in windows.h: every argument vector within the bound over all 255 non-NUL byte values round-trips through an independent implementation of the documented splitting rules; sizes exact, terminator last, canary intact.",
    "C19": "The LLVM IR of the real reproc++ sources translated to C and model checked: every options field reaches the same-named C field, clone preserves all fields, every int result maps to the equivalent error_code, every wrapper passes its arguments through and returns the C result, containers become exact NULL-terminated arrays released once, enumerators equal their C counterparts.",
    "C20": "Reduced strength (no thread schedules): frame and footprint non-interference of the real API functions over constructed handles, absence of mutable process-wide static storage (goto symbol table), per-thread signal mask and no environ write in start.",
}
NOTE = "Trusts cbmc 6.11/goto-cc, the POSIX model in /verif/model (its contracts are listed in the evidence file's assumptions) and the reference oracles written from reproc.h; claims are bounded as stated in evidence.coverage.harnesses[].bounds - nothing is claimed outside those bounds."
TECH = {
    "C19": "clang LLVM IR -> C translation (validated differentially each run) + CBMC bounded model checking",
    "C20": "CBMC bounded model checking of frame/footprint non-interference + goto symbol table inspection",
}


def main():
    props = [json.loads(l)["id"] for l in open(os.path.join(os.path.dirname(__file__), "..", "properties.jsonl"))]
    checks = []
    for p in props:
        if p not in registry.META or not registry.jobs_for(p, "quick"):
            continue
        checks.append({
            "property_id": p,
            "quick_cmd": "./check %s --tier quick" % p,
            "thorough_cmd": "./check %s --tier thorough" % p,
            "evidence_file": "/verif/evidence/%s.json" % p,
            "replay_cmd_template": "./check %s --replay {path}" % p,
            "engine": "cbmc",
            "level_claimed": {"category": "model_checking", "text": TEXT[p], "design_ref": "DESIGN.md section 3, " + p},
            "level_note": NOTE,
            "technique": TECH.get(p, "solver-based bounded model checking (CBMC/SAT) of the real C sources against a "
                                     "nondeterministic POSIX model and reference oracles; counterexamples replayed natively"),
        })
    claimed = {c["property_id"] for c in checks}
    m = {
        "version": 1,
        "setup_cmd": "./check --setup",
        "hooks": {
            "guard": "DAANDEMEYER_REPROC_VERIF",
            "enable": "no hooks are needed: harnesses #include the unmodified sources from /repo and redirect libc calls with a forced-include macro shim (-include /verif/model/vp_shim.h); the guard name is reserved but unused",
            "baseline_off_cmd": "cmake --build /repo/_build && ctest --test-dir /repo/_build -j8 --timeout 900",
            "source_commits": [],
            "add_only": True,
        },
        "engines": [{"name": "cbmc", "path": "/verif/check", "serves_properties": sorted(claimed),
                     "kind_free_text": "bounded symbolic execution of the real sources (goto-cc + cbmc 6.11, SAT back ends "
                                       "minisat/cadical/kissat raced), native replay of counterexamples with gcc+ASan/UBSan; "
                                       "clang LLVM IR -> C translator for reproc++"}],
        "checks": checks,
        "notes": "See DESIGN.md. Exit codes: 0 held within bounds, 1 confirmed violation (VIOLATION line), 2 inconclusive.",
        "not_applicable": [{"property_id": p, "reason": "no check registered"} for p in props if p not in claimed],
    }
    json.dump(m, open(os.path.join(os.path.dirname(__file__), "..", "MANIFEST.json"), "w"), indent=1)
    print("claimed:", sorted(claimed))


if __name__ == "__main__":
    main()
