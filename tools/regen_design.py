#!/usr/bin/env python3
"""Rewrite the generated parts of DESIGN.md in place: section 13.1 (mutation matrix, from
seeded/RESULTS.tsv via gen_matrix_md.py) is left to that tool; this one replaces everything
after the introduction of section 14 with the output of gen_design_table.py."""
import os
import subprocess
import sys

ROOT = os.path.dirname(os.path.dirname(os.path.abspath(__file__)))
p = os.path.join(ROOT, "DESIGN.md")
s = open(p).read()
marker = "### C01\n"
head = s[:s.index("## 14. Checks as built")]
sec = s[s.index("## 14. Checks as built"):]
intro = sec[:sec.index(marker)]
table = subprocess.run([sys.executable, os.path.join(ROOT, "tools", "gen_design_table.py")], capture_output=True,
                       text=True, check=True).stdout
open(p, "w").write(head + intro + table)
