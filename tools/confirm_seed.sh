#!/bin/bash
# tools/confirm_seed.sh <seed dir with patch.diff, demo/run.sh, meta.json>
# Confirms in a scratch worktree of /repo HEAD: patch applies, library (C and C++) builds,
# the unedited suite passes with it, the demonstration fails with it and passes without it.
# Writes <seed dir>/confirm.json. Removes the worktree afterwards.
set -u
D=$(readlink -f "$1"); N=$(basename "$D")
W=/tmp/confirm/$N-$$
mkdir -p /tmp/confirm
git -C /repo worktree add -q --detach "$W" HEAD || exit 3
res() { python3 - "$D/confirm.json" "$@" <<'PY'
import json,sys
p=sys.argv[1]; kv=dict(a.split('=',1) for a in sys.argv[2:])
json.dump(kv, open(p,'w'), indent=1)
PY
}
cd "$W"
# clean tree: demo must pass
( bash "$D/demo/run.sh" "$W" ) > "$W.clean.log" 2>&1; clean_rc=$?
if ! git apply "$D/patch.diff" 2>/dev/null; then
  if ! git apply -3 "$D/patch.diff" 2>/dev/null; then
    res applies=no clean_demo_rc=$clean_rc; git -C /repo worktree remove --force "$W"; rm -f "$W".*.log; echo "$N: patch does not apply"; exit 1
  fi
fi
cmake -G Ninja -B build -DCMAKE_BUILD_TYPE=RelWithDebInfo -DREPROC_TEST=ON -DREPROC++=ON -DREPROC_MULTITHREADED=ON -DCMAKE_C_FLAGS=-Wno-error -DCMAKE_CXX_FLAGS=-Wno-error > "$W.build.log" 2>&1 && cmake --build build >> "$W.build.log" 2>&1; build_rc=$?
ctest --test-dir build -j4 --timeout 900 > "$W.test.log" 2>&1; test_rc=$?
rm -rf build
( bash "$D/demo/run.sh" "$W" ) > "$W.mut.log" 2>&1; mut_rc=$?
res applies=yes build_rc=$build_rc suite_rc=$test_rc demo_with_patch_rc=$mut_rc demo_clean_rc=$clean_rc head=$(git -C /repo rev-parse --short HEAD)
echo "$N: build=$build_rc suite=$test_rc demo(with)=$mut_rc demo(clean)=$clean_rc"
cd /; git -C /repo worktree remove --force "$W"; rm -f "$W".*.log
