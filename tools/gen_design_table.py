#!/usr/bin/env python3
"""Print the 'checks as built' table (markdown) from the registry."""
import os
import sys

sys.path.insert(0, os.path.dirname(os.path.dirname(os.path.abspath(__file__))))
from vp import registry  # noqa: E402

for p in sorted(registry.META):
    q = registry.jobs_for(p, "quick")
    t = registry.jobs_for(p, "thorough")
    print("### %s" % p)
    print("* quick (%d jobs): %s" % (len(q), ", ".join("`%s`" % j.name for j in q)))
    extra = [j.name for j in t if j.name not in {x.name for x in q}]
    print("* thorough (%d jobs), beyond quick: %s" % (len(t), ", ".join("`%s`" % n for n in extra) or "same jobs"))
    print("* outside the claim: %s" % "; ".join(registry.META[p]["outside"]))
    print()
