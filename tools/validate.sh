#!/bin/bash
# validate MANIFEST.json and every evidence file against the schemas in /root/.vp
cd /verif
python3-vt - <<'PY'
import json, glob, sys
import jsonschema
bad = 0
def check(path, schema):
    global bad
    try:
        jsonschema.validate(json.load(open(path)), json.load(open(schema)))
    except Exception as e:  # noqa
        bad += 1
        print("INVALID", path, str(e)[:300])
check("MANIFEST.json", "/root/.vp/MANIFEST.schema.json")
for f in sorted(glob.glob("evidence/C*.json")):
    check(f, "/root/.vp/EVIDENCE.schema.json")
m = json.load(open("MANIFEST.json"))
claimed = {c["property_id"] for c in m["checks"]}
na = {x["property_id"] if isinstance(x, dict) else x for x in m.get("not_applicable", [])}
props = {json.loads(l)["id"] for l in open("properties.jsonl")}
if claimed | na != props or claimed & na:
    bad += 1
    print("MANIFEST does not partition the properties", sorted(props - claimed - na), sorted(claimed & na))
for c in sorted(claimed):
    try:
        e = json.load(open("evidence/%s.json" % c))
    except OSError:
        bad += 1
        print("missing evidence for", c)
print("validated: MANIFEST + %d evidence files, %d problems" % (len(glob.glob("evidence/C*.json")), bad))
sys.exit(1 if bad else 0)
PY
