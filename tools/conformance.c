/* conformance.c - does the POSIX model agree with the real kernel?
 *
 * Seeded random scripts over {pipe, close, dup2, fcntl F_GETFD/F_SETFD/F_GETFL/F_SETFL/F_DUPFD_CLOEXEC,
 * open("/dev/null"), write, read, poll} run twice: against the real kernel (in a forked child
 * whose descriptors >= 3 are closed first) and against the native build of
 * /verif/model/posix_model.c. After every operation the observable result (return value,
 * errno, descriptor numbers, flags, revents) must be identical. Pipe capacity is scaled: the
 * script "fills" a pipe (until EAGAIN) instead of writing a particular number of bytes, and
 * single writes/reads use at most VP_CAP bytes on a drained pipe.
 *
 * This is supporting evidence for the model's contracts (DESIGN 2.2); it is not part of any
 * property's verdict. Build/run: tools/conformance.sh [seed] [scripts]
 */
#define _GNU_SOURCE
#include "vp_model.h"

#include <errno.h>
#include <fcntl.h>
#include <poll.h>
#include <signal.h>
#include <stdio.h>
#include <stdlib.h>
#include <string.h>
#include <sys/wait.h>
#include <unistd.h>

/* the model needs these from a harness */
void vp_on_exec(const char *f, char *const a[]) { (void) f; (void) a; }
void vp_on_exit(int s) { (void) s; }
void vp_on_fork(void) {}
int vp_trace_on;
int vp_choice(int lo, int hi) { (void) hi; return lo; } /* no faults, no child activity */
void vp_native_fail(const char *kind, const char *text)
{
  printf("MODEL %s %s\n", kind, text);
  exit(9);
}

enum { OP_PIPE, OP_CLOSE, OP_DUP2, OP_GETFD, OP_SETFD, OP_GETFL, OP_SETNB, OP_OPENNULL, OP_WRITE1, OP_READ1, OP_FILL,
       OP_DRAIN, OP_POLL, OP_DUPFD, NOPS };
struct op {
  int kind, a, b;
};

static uint64_t rng;
static unsigned rnd(void)
{
  rng = rng * 6364136223846793005ULL + 1442695040888963407ULL;
  return (unsigned) (rng >> 33);
}

#define MAXFD 14

/* one operation; `real` selects kernel or model; result rendered into out */
static void run_op(int real, struct op o, char *out, size_t outsz)
{
  int r = 0, e = 0;
  char extra[64] = "";
  errno = 0;
  switch (o.kind) {
    case OP_PIPE: {
      int f[2] = { -1, -1 };
      r = real ? pipe(f) : vp_pipe(f);
      e = errno;
      snprintf(extra, sizeof extra, " [%d,%d]", f[0], f[1]);
      break;
    }
    case OP_CLOSE:
      if (o.a < 3) { snprintf(out, outsz, "skip"); return; }
      if (!real && (o.a >= VP_NFD || !vp_fd_open[o.a])) { r = -1; e = EBADF; break; } /* the model asserts on stray closes */
      r = real ? close(o.a) : vp_close(o.a);
      e = errno;
      break;
    case OP_DUP2:
      if (o.b < 3) { snprintf(out, outsz, "skip"); return; }
      r = real ? dup2(o.a, o.b) : vp_dup2(o.a, o.b);
      e = errno;
      break;
    case OP_GETFD:
      r = real ? fcntl(o.a, F_GETFD) : vp_fcntl(o.a, F_GETFD, 0);
      e = errno;
      break;
    case OP_SETFD:
      r = real ? fcntl(o.a, F_SETFD, o.b ? FD_CLOEXEC : 0) : vp_fcntl(o.a, F_SETFD, o.b ? FD_CLOEXEC : 0);
      e = errno;
      break;
    case OP_GETFL:
      r = real ? fcntl(o.a, F_GETFL) : vp_fcntl(o.a, F_GETFL, 0);
      e = errno;
      if (r >= 0) r &= (O_ACCMODE | O_NONBLOCK);
      if (o.a < 3) { snprintf(out, outsz, "skip"); return; } /* what 0,1,2 are differs */
      break;
    case OP_SETNB: {
      if (o.a < 3) { snprintf(out, outsz, "skip"); return; }
      int fl = real ? fcntl(o.a, F_GETFL) : vp_fcntl(o.a, F_GETFL, 0);
      if (fl < 0) { r = -1; e = errno; break; }
      fl = o.b ? (fl | O_NONBLOCK) : (fl & ~O_NONBLOCK);
      r = real ? fcntl(o.a, F_SETFL, fl) : vp_fcntl(o.a, F_SETFL, fl);
      e = errno;
      break;
    }
    case OP_OPENNULL:
      r = real ? open("/dev/null", O_WRONLY | O_CLOEXEC) : vp_open("/dev/null", O_WRONLY | O_CLOEXEC);
      e = errno;
      break;
    case OP_WRITE1: {
      /* only on nonblocking descriptors or when it cannot block: keep to nonblocking */
      if (o.a < 3) { snprintf(out, outsz, "skip"); return; }
      int fl = real ? fcntl(o.a, F_GETFL) : vp_fcntl(o.a, F_GETFL, 0);
      if (fl < 0 || !(fl & O_NONBLOCK)) { snprintf(out, outsz, "skip"); return; }
      char c = 'x';
      r = real ? (int) write(o.a, &c, 1) : (int) vp_write(o.a, &c, 1);
      e = errno;
      if (r == 1 && real) {
        /* kernel pipes are bigger than the model's: a successful 1-byte write must be
         * undone unless the model pipe also has room, which the FILL op controls; to stay
         * comparable the script only writes to pipes it drained (see OP_DRAIN) */
      }
      break;
    }
    case OP_READ1: {
      if (o.a < 3) { snprintf(out, outsz, "skip"); return; }
      int fl = real ? fcntl(o.a, F_GETFL) : vp_fcntl(o.a, F_GETFL, 0);
      if (fl < 0 || !(fl & O_NONBLOCK)) { snprintf(out, outsz, "skip"); return; }
      char c = 0;
      r = real ? (int) read(o.a, &c, 1) : (int) vp_read(o.a, &c, 1);
      e = errno;
      break;
    }
    case OP_FILL: {
      /* write until the pipe is full (nonblocking descriptors only); report the final errno */
      if (o.a < 3) { snprintf(out, outsz, "skip"); return; }
      int fl = real ? fcntl(o.a, F_GETFL) : vp_fcntl(o.a, F_GETFL, 0);
      if (fl < 0 || !(fl & O_NONBLOCK)) { snprintf(out, outsz, "skip"); return; }
      char buf[4096];
      memset(buf, 'f', sizeof buf);
      for (;;) {
        r = real ? (int) write(o.a, buf, sizeof buf) : (int) vp_write(o.a, buf, VP_CAP);
        e = errno;
        if (r <= 0) break;
      }
      break;
    }
    case OP_DRAIN: {
      if (o.a < 3) { snprintf(out, outsz, "skip"); return; }
      int fl = real ? fcntl(o.a, F_GETFL) : vp_fcntl(o.a, F_GETFL, 0);
      if (fl < 0 || !(fl & O_NONBLOCK)) { snprintf(out, outsz, "skip"); return; }
      char buf[4096];
      for (;;) {
        r = real ? (int) read(o.a, buf, sizeof buf) : (int) vp_read(o.a, buf, VP_CAP);
        e = errno;
        if (r <= 0) break;
      }
      break;
    }
    case OP_DUPFD: {
      /* lowest free descriptor >= 3 (b = 0) or >= 5 (b = 1), close-on-exec; report the flag too */
      if (o.a < 3) { snprintf(out, outsz, "skip"); return; }
      int min = o.b ? 5 : 3;
      r = real ? fcntl(o.a, F_DUPFD_CLOEXEC, min) : vp_fcntl(o.a, F_DUPFD_CLOEXEC, min);
      e = errno;
      if (r >= 0) {
        int fl = real ? fcntl(r, F_GETFD) : vp_fcntl(r, F_GETFD, 0);
        snprintf(extra, sizeof extra, " cx=%d", fl);
      }
      break;
    }
    case OP_POLL: {
      if (o.a < 3) { snprintf(out, outsz, "skip"); return; }
      struct pollfd p = { o.a, (short) (o.b ? POLLIN : POLLOUT), 0 };
      r = real ? poll(&p, 1, 0) : vp_poll(&p, 1, 0);
      e = errno;
      snprintf(extra, sizeof extra, " rev=%x", (unsigned) p.revents & (POLLIN | POLLOUT | POLLHUP | POLLERR | POLLNVAL));
      break;
    }
  }
  snprintf(out, outsz, "r=%d e=%d%s", r, r < 0 ? e : 0, extra);
}

static const char *opname[] = { "pipe", "close", "dup2", "getfd", "setfd", "getfl", "setnb", "opennull", "write1",
                                "read1", "fill", "drain", "poll", "dupfd" };

/* is a 1-byte write comparable? only when the model pipe behind fd is empty (the kernel pipe is then
 * empty too, because both sides execute the same script) */
static int model_pipe_len(int fd)
{
  if (fd < 0 || fd >= VP_NFD || !vp_fd_open[fd]) return -1;
  int o = vp_fd_ofd[fd];
  if (vp_of_kind[o] != VP_K_PIPE_W && vp_of_kind[o] != VP_K_PIPE_R) return -1;
  return vp_pp_len[vp_of_pipe[o]];
}

int main(int argc, char **argv)
{
  uint64_t seed = argc > 1 ? strtoull(argv[1], NULL, 10) : 1;
  int scripts = argc > 2 ? atoi(argv[2]) : 300, len = 16;
  signal(SIGPIPE, SIG_IGN);
  int pfd[2];
  if (pipe(pfd) != 0) return 2;
  pid_t pid = fork();
  if (pid == 0) {
    /* kernel and model side by side, in a child whose descriptor table is clean */
    close(pfd[0]);
    FILE *w = fdopen(dup2(pfd[1], 250), "w");
    int bad = 0, compared = 0;
    for (int s = 0; s < scripts; s++) {
      for (int fd = 3; fd < 250; fd++) close(fd);
      vp_init();
      for (int i = 0; i < 3; i++) vp_add_fd(i, VP_K_STD, O_RDWR, VP_OWN_PRE, i, false);
      vp_faults_left = 0;
      rng = seed * 1000003ULL + (uint64_t) s;
      for (int i = 0; i < len; i++) {
        struct op o;
        o.kind = (int) (rnd() % NOPS);
        o.a = (int) (rnd() % MAXFD);
        o.b = o.kind == OP_DUP2 ? (int) (rnd() % MAXFD) : (int) (rnd() % 2);
        if (i < 3 && rnd() % 2) o.kind = OP_PIPE;
        if (o.kind != OP_PIPE && o.kind != OP_OPENNULL && o.a < 3) continue; /* what 0,1,2 are is the environment's */
        if (o.kind == OP_WRITE1 && model_pipe_len(o.a) != 0) continue; /* not comparable */
        if (o.kind == OP_READ1 && model_pipe_len(o.a) > 1) continue;    /* kernel may hold far more */
        char k[128], m[128];
        run_op(1, o, k, sizeof k);
        run_op(0, o, m, sizeof m);
        compared++;
        if (getenv("CONF_SHOW") && atoi(getenv("CONF_SHOW")) == s) {
          fprintf(w, "  script %d op %d %s(%d,%d): kernel '%s' model '%s'\n", s, i, opname[o.kind], o.a, o.b, k, m);
        }
        if (strcmp(k, m) != 0) {
          bad++;
          fprintf(w, "MISMATCH script %d op %d %s(%d,%d): kernel '%s' model '%s'\n", s, i, opname[o.kind], o.a, o.b, k, m);
          break;
        }
      }
    }
    fprintf(w, "%d scripts, %d operations compared, %d mismatches\n", scripts, compared, bad);
    fclose(w);
    _exit(bad ? 1 : 0);
  }
  close(pfd[1]);
  char line[512];
  FILE *rd = fdopen(pfd[0], "r");
  while (fgets(line, sizeof line, rd)) fputs(line, stdout);
  int st = 0;
  waitpid(pid, &st, 0);
  return WIFEXITED(st) ? WEXITSTATUS(st) : 3;
}
