#!/usr/bin/env python3
"""seeded/RESULTS.tsv + confirm.json -> seeded/<change>/verif.json (what the quick check of the
change's own property said in the last matrix run)"""
import json
import os

root = os.path.join(os.path.dirname(os.path.abspath(__file__)), "..", "seeded")
word = {"rc=1": "VIOLATION reported (exit 1)", "rc=0": "nothing reported (exit 0)",
        "rc=2": "inconclusive (exit 2)", "rc=3": "patch did not apply"}
for line in open(os.path.join(root, "RESULTS.tsv")):
    parts = line.rstrip("\n").split("\t")
    if len(parts) < 3 or parts[0].endswith("(reverted)"):
        continue
    n, prop, rc = parts[:3]
    d = os.path.join(root, n)
    if not os.path.isdir(d):
        continue
    conf = {}
    try:
        conf = json.load(open(os.path.join(d, "confirm.json")))
    except (OSError, ValueError):
        pass
    json.dump({"property": prop, "quick_check_result": word.get(rc, rc),
               "first_assertion": parts[3] if len(parts) > 3 else "",
               "how_run": "tools/mutcheck.sh /verif/seeded/%s/patch.diff %s  (scratch worktree of /repo HEAD + patch, "
                          "quick check via VP_REPO)" % (n, prop),
               "confirmation": conf}, open(os.path.join(d, "verif.json"), "w"), indent=1)
