#!/bin/bash
# run every registered quick (or $1) check on /repo sequentially, log to .work/all-<tier>.log
T=${1:-quick}
cd /verif
: > .work/all-$T.log
for p in $(python3 -c "
import json
print(' '.join(c['property_id'] for c in json.load(open('MANIFEST.json'))['checks']))"); do
  s=$(date +%s)
  ./check $p --tier $T > .work/all-$T-$p.log 2>&1
  rc=$?
  e=$(date +%s)
  echo "$p rc=$rc $((e-s))s" | tee -a .work/all-$T.log
done
