#!/bin/bash
# tools/matrix_par.sh [P] [pattern]  like matrix.sh, P changes at a time; writes seeded/RESULTS.tsv anew
# (sorted) when every entry selected by the pattern has been run; with a pattern only those rows
# are replaced.
cd /verif
P=${1:-3}; PAT=${2:-.}
NEW=.work/RESULTS.new.tsv
: > $NEW
one() {
  n=$1; prop=$2; f=$3; rev=$4
  r=$(LINES_MAX=3 tools/mutcheck.sh $f $prop $rev 2>&1)
  rc=$(echo "$r" | grep -o "rc=[0-9]*" | tail -1)
  a=$(echo "$r" | grep "assertion=" | head -1 | sed 's/.*assertion=//')
  printf "%s\t%s\t%s\t%s\n" "$n" "$prop" "$rc" "$a" >> .work/RESULTS.new.tsv
  echo "$n $rc $a"
}
export -f one
(
for d in seeded/C*-*; do
  n=$(basename $d); prop=${n%%-*}
  echo "$n" | grep -Eq "$PAT" || continue
  [ -f $d/patch.diff ] || continue
  echo "$n $prop $d/patch.diff"
done
for f in seeded/_fixes/*.fix.diff; do
  n=$(basename $f .fix.diff); prop=${n##*-}
  echo "$n" | grep -Eq "$PAT" || continue
  echo "$n(reverted) $prop $f -R"
done
) | xargs -P $P -L 1 bash -c 'one "$0" "$1" "$2" "$3"'
# merge: rows of this run replace rows with the same first column
python3 - <<'PY'
import os
rows = {}
for path in ("seeded/RESULTS.tsv", ".work/RESULTS.new.tsv"):
    if os.path.exists(path):
        for l in open(path):
            if l.strip():
                rows[l.split("\t")[0]] = l
open("seeded/RESULTS.tsv", "w").write("".join(rows[k] for k in sorted(rows)))
PY
