#!/bin/bash
# tools/conformance.sh [seed] [scripts]: compare the POSIX model with the real kernel
set -e
D=$(mktemp -d /verif/.work/conf.XXXXXX)
gcc -std=gnu99 -w -O1 -DVP_NFD=64 -DVP_NOFD=96 -DVP_NPIPE=24 -I/verif/model /verif/tools/conformance.c /verif/model/posix_model.c -o $D/conf
$D/conf ${1:-1} ${2:-400}; rc=$?
rm -rf $D
exit $rc
